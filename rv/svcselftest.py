"""Replay test of the fake S3 / B2 services against spec/Services.tla: random raw requests straight to the fakes (no adapter in
between), responses validated by ServicesTrace.tla. A disagreement is a defect of the MACHINERY (exit 2), not of replicat."""
import asyncio
import base64
import json
import random
import re
from urllib.parse import quote

import httpx

from . import fakeb2, fakes3, tlc

NAMES = ['a', 'a/b', 'a/c d', 'ab', 'b/é', 'b/%41', 'z?q', 'data/00/x', 'data/01/y', 'data0', 'm+n']


def cp(s):
    return [ord(c) for c in s]


async def s3_trace(rng, page, nops):
    fake = fakes3.FakeS3(page_size=page, verify_signatures=False)
    fake.op_limit = 10 ** 9        # the per-operation request limit guards adapter runaways; here requests are issued directly
    c = httpx.AsyncClient(transport=fake.transport())
    idx = {n: i + 1 for i, n in enumerate(NAMES)}
    evs = []
    for _ in range(nops):
        op = rng.choice(['put', 'put', 'get', 'head', 'delete', 'list', 'list'])
        n = rng.choice(NAMES)
        url = 'http://s3.test/%s/%s' % (fake.bucket, quote(n))
        if op == 'put':
            body = rng.randrange(1, 5)
            await c.put(url, content=bytes([body]))
            evs.append({'op': 'put', 'n': idx[n], 'body': body})
        elif op in ('get', 'head'):
            r = await (c.get(url) if op == 'get' else c.head(url))
            evs.append({'op': op, 'n': idx[n], 'status': r.status_code, 'body': r.content[0] if (op == 'get' and r.status_code == 200 and r.content) else 0})
        elif op == 'delete':
            await c.delete(url)
            evs.append({'op': 'delete', 'n': idx[n]})
        else:
            prefix = rng.choice(['', 'a', 'a/', 'data/', 'data', 'b/', 'zz'])
            token, after = None, 0
            while True:
                q = 'list-type=2' + ('&prefix=' + quote(prefix, safe='') if prefix else '') + ('&continuation-token=' + quote(token, safe='') if token else '')
                r = await c.get('http://s3.test/%s?%s' % (fake.bucket, q))
                keys = re.findall(r'<Key>(.*?)</Key>', r.text)
                keys = [k.replace('&amp;', '&').replace('&lt;', '<').replace('&gt;', '>') for k in keys]
                trunc = '<IsTruncated>true</IsTruncated>' in r.text
                m = re.search(r'<NextContinuationToken>(.*?)</NextContinuationToken>', r.text)
                token = m.group(1) if m else None
                tokenlast = 0
                if token:
                    tokenlast = idx[base64.b64decode(token).decode('utf-8', 'surrogateescape')[3:]]
                evs.append({'op': 'list', 'prefix': cp(prefix), 'after': after, 'keys': [idx[k] for k in keys], 'truncated': trunc, 'tokenlast': tokenlast})
                if not trunc:
                    break
                after = idx[keys[-1]]
    await c.aclose()
    return {'service': 's3', 'page': page, 'names': [cp(n) for n in NAMES], 'events': evs}


async def b2_trace(rng, page, nops):
    fake = fakeb2.FakeB2(page_size=page)
    fake.op_limit = 10 ** 9
    c = httpx.AsyncClient(transport=fake.transport())
    idx = {n: i + 1 for i, n in enumerate(NAMES)}
    auth = (await c.get('https://api.backblazeb2.com/b2api/v2/b2_authorize_account', auth=(fake.key_id, fake.app_key))).json()
    tok = {'authorization': auth['authorizationToken']}
    evs = []
    for _ in range(nops):
        op = rng.choice(['upload', 'upload', 'get', 'head', 'hide', 'hide', 'list', 'list'])
        n = rng.choice(NAMES)
        if op == 'upload':
            up = (await c.post(fake.API + '/b2api/v2/b2_get_upload_url', json={'bucketId': fake.bucket_id}, headers=tok)).json()
            body = rng.randrange(1, 5)
            await c.post(up['uploadUrl'], headers={'authorization': up['authorizationToken'], 'x-bz-file-name': quote(n), 'content-length': '1'}, content=bytes([body]))
            evs.append({'op': 'upload', 'n': idx[n], 'body': body})
        elif op in ('get', 'head'):
            url = '%s/file/%s/%s' % (fake.DL, fake.bucket, quote(n))
            r = await (c.get(url, headers=tok) if op == 'get' else c.head(url, headers=tok))
            evs.append({'op': op, 'n': idx[n], 'status': r.status_code, 'body': r.content[0] if (op == 'get' and r.status_code == 200 and r.content) else 0})
        elif op == 'hide':
            r = await c.post(fake.API + '/b2api/v2/b2_hide_file', json={'bucketId': fake.bucket_id, 'fileName': n}, headers=tok)
            evs.append({'op': 'hide', 'n': idx[n], 'result': 'ok' if r.status_code == 200 else r.json().get('code', '?')})
        else:
            prefix = rng.choice(['', 'a', 'a/', 'data/', 'data', 'b/', 'zz'])
            start = None
            while True:
                args = {'bucketId': fake.bucket_id, 'maxFileCount': 10000, 'prefix': prefix}
                if start is not None:
                    args['startFileName'] = start
                r = (await c.post(fake.API + '/b2api/v2/b2_list_file_names', json=args, headers=tok)).json()
                names = [f['fileName'] for f in r['files']]
                evs.append({'op': 'list', 'prefix': cp(prefix), 'start': idx[start] if start else 0, 'names': [idx[k] for k in names], 'next': idx[r['nextFileName']] if r['nextFileName'] else 0})
                if r['nextFileName'] is None:
                    break
                start = r['nextFileName']
    await c.aclose()
    return {'service': 'b2', 'page': page, 'names': [cp(n) for n in NAMES], 'events': evs}


def run(seed, quick=True):
    """-> number of service calls validated; raises tlc.MachineryError on a disagreement"""
    rng = random.Random(seed)
    traces = []
    for page in (2, 3, 1000):
        traces.append(asyncio.run(s3_trace(rng, page, 40 if quick else 200)))
        traces.append(asyncio.run(b2_trace(rng, page, 40 if quick else 200)))
    verdicts, res = tlc.validate_traces('ServicesTrace', 'Trace_Repo.cfg', traces)
    for tid, v in verdicts.items():
        if v[1] != 'ok':
            t = traces[tid - 1]
            raise tlc.MachineryError('fake %s service disagrees with Services.tla: %s at event %d %r' % (t['service'], v[1], v[0], t['events'][v[0] - 1]))
    return sum(len(t['events']) for t in traces)
