"""Virtual time for retry / back-off waits: asyncio.sleep and time.sleep cost nothing and are recorded."""
import asyncio
import contextlib
import time

_real_async_sleep = asyncio.sleep
_real_sleep = time.sleep


class Clock:
    def __init__(self):
        self.slept = []

    @property
    def total(self):
        return sum(self.slept)


@contextlib.contextmanager
def virtual():
    c = Clock()

    async def fake_async_sleep(delay, result=None):
        if delay and delay > 0:
            c.slept.append(delay)
        await _real_async_sleep(0)
        return result

    def fake_sleep(delay):
        if delay and delay > 0:
            c.slept.append(delay)

    asyncio.sleep = fake_async_sleep
    time.sleep = fake_sleep
    try:
        yield c
    finally:
        asyncio.sleep = _real_async_sleep
        time.sleep = _real_sleep
