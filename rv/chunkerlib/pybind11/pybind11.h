// Minimal stand-in for pybind11 (the real headers are not installed in this sandbox): just enough for
// src/adapters.cpp to compile unchanged. The class logic (constructor, key, next_cut) is the repository's own.
#pragma once
#include <cstddef>
namespace pybind11 {
struct buffer_info { void* ptr; std::ptrdiff_t size; };
struct buffer {
    const void* p; std::ptrdiff_t n;
    buffer(const void* p_, std::ptrdiff_t n_) : p(p_), n(n_) {}
    buffer_info request() const { return buffer_info{const_cast<void*>(p), n}; }
};
struct module_ {};
template <class T> struct class_ {
    class_(module_&, const char*) {}
    template <class... A> class_& def(A&&...) { return *this; }
    template <class... A> class_& def_readonly(A&&...) { return *this; }
};
template <class... A> struct init {};
}
#define PYBIND11_MODULE(name, var) static void rv_unused_module_init(pybind11::module_& var)
