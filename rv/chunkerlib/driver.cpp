// extern "C" wrappers around the gclmulchunker class of /repo/src/adapters.cpp (included verbatim)
#include RV_ADAPTERS_CPP
extern "C" {
void* rv_new(size_t min_length, size_t max_length, const char* key16) {
    try { return new gclmulchunker(min_length, max_length, py::buffer(key16, 16)); } catch (...) { return nullptr; }
}
void rv_free(void* c) { delete static_cast<gclmulchunker*>(c); }
size_t rv_next_cut(void* c, const char* buf, size_t n, int final) {
    return static_cast<gclmulchunker*>(c)->next_cut(py::buffer(buf, (std::ptrdiff_t)n), final != 0);
}
}
