"""Driving the real replicat (imported from /repo's working tree) in-process."""
import asyncio
import contextlib
import datetime as _dt
import io
import os
import shutil
import sys
import tempfile
import threading
from pathlib import Path

REPO = os.environ.get('RV_REPO', '/repo')
if REPO not in sys.path:
    sys.path.insert(0, REPO)
os.environ.setdefault('REPLICAT_VERIF', '1')
import logging  # noqa: E402
logging.getLogger('asyncio').setLevel(logging.CRITICAL)   # futures of simulated-killed processes are never retrieved

from replicat import exceptions as rexc  # noqa: E402
from replicat import repository as rrepo  # noqa: E402
from replicat.repository import Repository  # noqa: E402

from . import membackend  # noqa: E402

# status lines go to stderr; they are not part of any property and cannot be captured per thread
Repository.display_status = lambda self, message: None
Repository.display_danger = lambda self, message: None

FAST_KDF = {'n': 4}
# the default scrypt work factor (n = 2**20, seconds per derivation) is lowered in the harness process so that keys can also be created
# WITHOUT explicit KDF settings (the default code path of init / add-key); nothing else about the KDF changes
from replicat.utils import adapters as _adapters  # noqa: E402
_adapters.scrypt.__init__.__kwdefaults__['n'] = 4


class Captured:
    def __init__(self):
        self.out = io.StringIO()
        self.err = io.StringIO()


@contextlib.contextmanager
def capture():
    c = Captured()
    with contextlib.redirect_stdout(c.out), contextlib.redirect_stderr(c.err):
        yield c


def run(coro, *, debug=False):
    """asyncio.run with stdout/stderr captured -> (result, stdout)"""
    with capture() as c:
        res = asyncio.run(coro)
    return res, c.out.getvalue()


class Outcome:
    def __init__(self, ok, value=None, exc=None, out=''):
        self.ok, self.value, self.exc, self.out = ok, value, exc, out
        self.hung = False

    @property
    def etype(self):
        return type(self.exc).__name__ if self.exc is not None else '~'

    def __repr__(self):
        return 'Outcome(ok=%s, %s)' % (self.ok, self.etype if not self.ok else type(self.value).__name__)


_NOCAP = threading.local()


@contextlib.contextmanager
def _nocapture():
    c = Captured()
    yield c


COMMAND_TIMEOUT = float(os.environ.get('RV_COMMAND_TIMEOUT', '30'))


class Hung(Exception):
    """the command did not finish within the watchdog time"""


def attempt(coro, timeout=None):
    """run a command; exceptions (including simulated kills) become an Outcome. The command runs under a watchdog: a command that does
    not finish is reported as Outcome(ok=False, exc=Hung) instead of blocking the check."""
    timeout = COMMAND_TIMEOUT if timeout is None else timeout
    nocap = getattr(_NOCAP, 'on', False)
    box = {}

    def body():
        _NOCAP.on = True       # stdout is captured once, by the caller's context below
        try:
            box['v'] = asyncio.run(coro)
        except BaseException as e:  # noqa: BLE001 - Killed is a BaseException on purpose
            box['e'] = e
    with (_nocapture() if nocap else capture()) as c:
        th = threading.Thread(target=body, daemon=True)
        th.start()
        th.join(timeout)
        out = c.out.getvalue()
    if th.is_alive():
        o = Outcome(False, exc=Hung('command still running after %.0f s' % timeout), out=out)
        o.hung = True
        return o
    if 'e' in box:
        if isinstance(box['e'], (KeyboardInterrupt, SystemExit)):
            raise box['e']
        return Outcome(False, exc=box['e'], out=out)
    return Outcome(True, value=box.get('v'), out=out)


def settings(*, encrypted=True, cipher=None, hashing=None, min_length=None, max_length=None, kdf=None):
    s = {}
    if hashing:
        s['hashing'] = dict(hashing)
    ch = {}
    if min_length is not None:
        ch['min_length'] = min_length
    if max_length is not None:
        ch['max_length'] = max_length
    if ch:
        s['chunking'] = ch
    if encrypted:
        e = {'kdf': dict(kdf or FAST_KDF)}
        if cipher:
            e['cipher'] = dict(cipher)
        s['encryption'] = e
    else:
        s['encryption'] = None
    return s


class User:
    """A key holder (or the anonymous user of a plain repository)."""

    def __init__(self, name, password=None, key=None, cache=None):
        self.name, self.password, self.key, self.cache = name, password, key, cache


class World:
    """One repository (a Store) + users; every command runs in a fresh Repository object with a
    fresh backend object on the shared Store - the analogue of a fresh process."""

    def __init__(self, *, store=None, concurrent=3, flavour='plain', backend_factory=None):
        self.store = store if store is not None else membackend.Store()
        self.concurrent = concurrent
        self.flavour = flavour
        self.backend_factory = backend_factory
        self.users = {}
        self.nclients = 0

    def backend(self, **kw):
        self.nclients += 1
        kw.setdefault('client_id', 'c%d' % self.nclients)
        if self.backend_factory is not None:
            return self.backend_factory(**kw)
        cls = membackend.MemBackend if self.flavour == 'plain' else membackend.AsyncMemBackend
        return cls(self.store, **kw)

    def repo(self, user=None, *, backend=None, concurrent=None, cache=None):
        if backend is None:
            backend = self.backend()
        if cache is None and user is not None:
            cache = user.cache
        return Repository(backend, concurrent=concurrent or self.concurrent, quiet=True, cache_directory=cache)

    # ---- setup commands
    def init(self, name='owner', password=b'pw-owner', settings_=None, cache=None, key_file=None):
        """key_file: let replicat write the key there (--key-output-file) and use what is ON DISK afterwards - the key the user really gets"""
        repo = self.repo(cache=cache)

        async def go():
            r = await repo.init(password=password, settings=settings_, **({'key_output_path': key_file} if key_file else {}))
            await repo.close()
            return r
        res, out_ = run(go())
        self.stdout_log = getattr(self, 'stdout_log', []) + [out_]
        u = User(name, password if res.key is not None else None, res.key, cache)
        if res.key is not None:
            u.key = Path(key_file).read_bytes() if key_file else repo.serialize(res.key)
        self.users[name] = u
        self.config = res.config
        return u

    def add_key(self, frm, name, password, *, shared=False, clone=False, settings_=None, cache=None, key_file=None):
        base = self.users[frm]
        repo = self.repo(cache=base.cache)

        async def go():
            if shared or clone:
                await repo.unlock(password=base.password, key=base.key)
            r = await repo.add_key(password=base.password if clone else password, settings=settings_, shared=shared or clone,
                                   **({'key_output_path': key_file} if key_file else {}))
            await repo.close()
            return r
        res, out_ = run(go())
        self.stdout_log = getattr(self, 'stdout_log', []) + [out_]
        u = User(name, base.password if clone else password, Path(key_file).read_bytes() if key_file else repo.serialize(res.new_key), cache)
        self.users[name] = u
        return u

    # ---- generic command runner
    def command(self, user, fn, *, backend=None, concurrent=None, cache='__user__'):
        """fn(repo) -> coroutine, run after unlock in a fresh Repository; returns Outcome"""
        u = self.users[user] if isinstance(user, str) else user
        repo = self.repo(u, backend=backend, concurrent=concurrent, cache=(u.cache if cache == '__user__' else cache))

        async def go():
            await repo.unlock(password=u.password, key=u.key)
            try:
                return await fn(repo)
            finally:
                with contextlib.suppress(BaseException):
                    await repo.close()
        o = attempt(go())
        o.repo = repo
        return o

    def snapshot(self, user, paths, note=None, **kw):
        rl = kw.pop('rate_limit', None)
        return self.command(user, lambda r: r.snapshot(paths=[Path(p) for p in paths], note=note, rate_limit=rl), **kw)

    def restore(self, user, target, snapshot_regex=None, file_regex=None, **kw):
        rl = kw.pop('rate_limit', None)
        return self.command(user, lambda r: r.restore(path=Path(target), snapshot_regex=snapshot_regex, file_regex=file_regex, rate_limit=rl), **kw)

    def delete(self, user, names, **kw):
        return self.command(user, lambda r: r.delete_snapshots(list(names), confirm=False), **kw)

    def clean(self, user, **kw):
        return self.command(user, lambda r: r.clean(), **kw)

    def list_snapshots(self, user, **args):
        kw = {k: args.pop(k) for k in ('backend', 'concurrent', 'cache') if k in args}
        return self.command(user, lambda r: r.list_snapshots(**args), **kw)

    def list_files(self, user, **args):
        kw = {k: args.pop(k) for k in ('backend', 'concurrent', 'cache') if k in args}
        return self.command(user, lambda r: r.list_files(**args), **kw)


def run_parallel(thunks):
    """run command thunks concurrently, one thread (= one event loop, one client process) each;
    stdout is not captured in the threads. Returns the list of results."""
    res = [None] * len(thunks)

    def go(i, f):
        _NOCAP.on = True
        try:
            res[i] = f()
        except BaseException as e:  # noqa: BLE001
            res[i] = e

    ts = [threading.Thread(target=go, args=(i, f)) for i, f in enumerate(thunks)]
    for t in ts:
        t.start()
    for t in ts:
        t.join()
    return res


# ---------------------------------------------------------------- file trees
def write_tree(root, files, mtimes=None):
    """files: {relative path (str or bytes): bytes}"""
    root = Path(root)
    for rel, data in files.items():
        p = Path(os.fsdecode(os.path.join(os.fsencode(root), os.fsencode(rel))))
        p.parent.mkdir(parents=True, exist_ok=True)
        p.write_bytes(data)
        if mtimes and rel in mtimes:
            os.utime(p, ns=mtimes[rel])
    return root


def read_tree(root):
    """-> {relative path: (bytes, mtime_ns)} for regular files (symlinks not followed)"""
    res = {}
    root = str(root)
    for d, _, fs in os.walk(root):
        for f in fs:
            p = os.path.join(d, f)
            if os.path.islink(p) or not os.path.isfile(p):
                continue
            st = os.stat(p)
            with open(p, 'rb') as fh:
                res[os.path.relpath(p, root)] = (fh.read(), st.st_mtime_ns)
    return res


def restored_path(target, src_abs):
    """where restore puts a file recorded under absolute path src_abs"""
    return os.path.join(str(target), *Path(src_abs).parts[1:])


@contextlib.contextmanager
def scratch(prefix='rv_'):
    base = os.environ.get('RV_SCRATCH') or tempfile.gettempdir()
    d = tempfile.mkdtemp(prefix=prefix, dir=base)
    try:
        yield Path(d)
    finally:
        shutil.rmtree(d, ignore_errors=True)


# ---------------------------------------------------------------- controlled wall clock
class _Clock:
    def __init__(self):
        self.now = _dt.datetime(2030, 1, 1, 0, 0, 0)
        self.step = _dt.timedelta(seconds=61)
        self.n = 0

    def tick(self):
        # distinct and increasing, but not always a second apart: every third and fourth reading follows the previous one by 130 / 7 ms
        # (listings print whole seconds; "newest first" is about the timestamps, not about what is printed)
        self.n += 1
        k = self.n % 5
        self.now = self.now + (_dt.timedelta(milliseconds=130) if k == 3 else _dt.timedelta(milliseconds=7) if k == 4 else self.step)
        return self.now


CLOCK = _Clock()


class _FakeDatetime(_dt.datetime):
    @classmethod
    def utcnow(cls):
        return CLOCK.tick()


def install_clock():
    """distinct, increasing snapshot timestamps (the properties quantify over distinct timestamps)"""
    rrepo.datetime = _FakeDatetime
