"""The REAL B2 adapter between the repository commands and the shared object store of a Session (cf. s3store.py).

The B2 service keeps VERSIONS of a name and hide markers; what a client sees is the newest version. The version table is shared by all
clients of the session; after every request the visible map is compared with the store's object map and the difference is logged as
put / del events (an upload of a name that two workers store at the same time creates two versions - deleting must remove the name,
not peel off one version)."""
from . import fakeb2


class StoreB2(fakeb2.FakeB2):
    def __init__(self, store, client_id, page_size):
        super().__init__(page_size=page_size)
        self.store, self.client_id = store, client_id
        if not hasattr(store, 'b2_versions'):
            store.b2_versions = {n: [('upload', b, 'init-%d' % i)] for i, (n, b) in enumerate(sorted(store.objs.items()))}
        self.versions = store.b2_versions
        self.op_limit = 10 ** 9

    def _sync_in(self):
        # objects the harness put into the store directly (tampering, foreign objects, repairs): mirror them as newest versions
        vis = self.visible()
        for n, b in self.store.objs.items():
            if vis.get(n) != b:
                self.versions.setdefault(n, []).append(('upload', b, 'ext-%d' % len(self.versions.get(n, ()))))
        for n in set(vis) - set(self.store.objs):
            self.versions[n] = []

    def _respond(self, request, rec, body):
        st = self.store
        with st.lock:
            self._sync_in()
            r = super()._respond(request, rec, body)
            self.requests.clear()
            after = self.visible()
            if request.method == 'HEAD' and request.url.host == 'dl.fake-b2.test':
                from urllib.parse import unquote
                name = unquote(request.url.raw_path.partition(b'?')[0].decode('ascii', 'replace').split('/file/%s/' % self.bucket, 1)[-1])
                st.events.append(('exists', name, r.status_code == 200, self.client_id))
            for n in sorted(set(st.objs) - set(after)):
                st.objs.pop(n)
                st.mutlog.append(('del', n, None, self.client_id))
                st.events.append(('del', n, True, self.client_id))
            for n in sorted(after):
                if st.objs.get(n) != after[n] or (request.url.host == 'up.fake-b2.test' and r.status_code == 200 and rec['headers'].get('x-bz-file-name') is not None
                                                  and n == self._uploaded_name(rec)):
                    st.objs[n] = after[n]
                    st.mutlog.append(('put', n, after[n], self.client_id))
                    st.events.append(('put', n, after[n], self.client_id))
        return r

    @staticmethod
    def _uploaded_name(rec):
        from urllib.parse import unquote
        return unquote(rec['headers'].get('x-bz-file-name', ''))


def factory(store, page_size=3):
    def make(client_id='c', gate=None, **kw):
        if gate is not None:
            raise ValueError('gates are a feature of the in-memory backend; B2-flavoured sessions run fault-free histories')
        be = fakeb2.client(StoreB2(store, client_id, page_size))
        be.client_id = client_id
        return be
    return make
