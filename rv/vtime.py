"""Virtual time for several threads: perf_counter / sleep / locks cooperate with a conductor that advances the clock to the next
wake-up whenever every registered thread is blocked (sleeping or waiting for a lock)."""
import heapq
import threading


class VTime:
    def __init__(self):
        self.now = 0.0
        self.cv = threading.Condition()
        self.running = 0          # registered threads that are not blocked
        self.sleepers = []        # heap of (wake, seq)
        self.seq = 0

    # ---- thread registration
    def enter(self):
        with self.cv:
            self.running += 1

    def leave(self):
        with self.cv:
            self.running -= 1
            self._advance_if_idle()

    def _advance_if_idle(self):
        if self.running == 0 and self.sleepers:
            wake, _ = self.sleepers[0]
            if wake > self.now:
                self.now = wake
            self.cv.notify_all()

    def perf_counter(self):
        return self.now

    def sleep(self, x):
        if x <= 0:
            return
        with self.cv:
            wake = self.now + x
            self.seq += 1
            me = (wake, self.seq)
            heapq.heappush(self.sleepers, me)
            self.running -= 1
            self._advance_if_idle()
            while self.now < wake:
                self.cv.wait()
            self.sleepers.remove(me)
            heapq.heapify(self.sleepers)
            self.running += 1

    def lock(self):
        return VLock(self)


class VLock:
    def __init__(self, vt):
        self.vt, self.owner = vt, None

    def acquire(self, blocking=True):
        with self.vt.cv:
            if self.owner is None:
                self.owner = threading.get_ident()
                return True
            if not blocking:
                return False
            self.vt.running -= 1
            self.vt._advance_if_idle()
            while self.owner is not None:
                self.vt.cv.wait()
            self.owner = threading.get_ident()
            self.vt.running += 1
            return True

    def release(self):
        with self.vt.cv:
            self.owner = None
            self.vt.cv.notify_all()

    def locked(self):
        return self.owner is not None

    __enter__ = acquire

    def __exit__(self, *a):
        self.release()
