"""Independent AWS Signature Version 4 verification from the bytes on the wire.

Written from the published algorithm (canonical request -> string to sign -> signing key -> signature);
imports nothing from replicat. Input: method, raw request target (path?query as sent), headers, body bytes."""
import hashlib
import hmac
import re

UNRESERVED = b'ABCDEFGHIJKLMNOPQRSTUVWXYZabcdefghijklmnopqrstuvwxyz0123456789-_.~'


def pct_decode(b):
    out, i = bytearray(), 0
    while i < len(b):
        if b[i:i + 1] == b'%' and i + 2 < len(b) + 0 and re.fullmatch(rb'[0-9A-Fa-f]{2}', b[i + 1:i + 3] or b''):
            out.append(int(b[i + 1:i + 3], 16))
            i += 3
        else:
            out.append(b[i])
            i += 1
    return bytes(out)


def uri_encode(raw, keep_slash):
    out = []
    for c in raw:
        ch = bytes([c])
        if ch in UNRESERVED or (keep_slash and ch == b'/'):
            out.append(ch.decode())
        else:
            out.append('%%%02X' % c)
    return ''.join(out)


def is_canonically_encoded(wire, keep_slash):
    """the wire form equals the canonical encoding of what it decodes to (encoded exactly once, upper-case hex)"""
    return uri_encode(pct_decode(wire), keep_slash) == wire.decode('ascii', 'replace')


def split_query(q):
    pairs = []
    if not q:
        return pairs
    for part in q.split(b'&'):
        k, _, v = part.partition(b'=')
        pairs.append((k, v))
    return pairs


def canonical_query(q):
    """canonical query string from the raw query bytes: every name and value decoded then re-encoded, sorted"""
    pairs = [(uri_encode(pct_decode(k), False), uri_encode(pct_decode(v), False)) for k, v in split_query(q)]
    return '&'.join('%s=%s' % kv for kv in sorted(pairs))


def _h(key, msg):
    return hmac.new(key, msg, hashlib.sha256).digest()


def verify(method, raw_target, headers, body, secret_for):
    """-> dict of findings. headers: {lower-case name: value}. secret_for(key_id) -> secret or None"""
    res = {'sigOk': False, 'problems': []}
    path, _, query = raw_target.partition(b'?')
    auth = headers.get('authorization', '')
    m = re.fullmatch(r'AWS4-HMAC-SHA256 Credential=([^/]+)/(\d{8})/([^/]+)/([^/]+)/aws4_request, ?SignedHeaders=([^,]+), ?Signature=([0-9a-f]{64})', auth)
    if not m:
        res['problems'].append('authorization header malformed')
        return res
    key_id, date, region, service, signed, sig = m.groups()
    signed_list = signed.split(';')
    res.update(signed=signed_list, date=date, region=region, service=service, key_id=key_id)
    if signed_list != sorted(signed_list):
        res['problems'].append('signed headers not sorted')
    for h in signed_list:
        if h not in headers:
            res['problems'].append('signed header %s not sent' % h)
            return res
    amz = headers.get('x-amz-date', '')
    if not amz.startswith(date):
        res['problems'].append('credential scope date differs from x-amz-date')
    canon_headers = ''.join('%s:%s\n' % (h, ' '.join(headers[h].split())) for h in signed_list)
    declared = headers.get('x-amz-content-sha256', '')
    # the canonical URI is the URI-encoded absolute path; the request target on the wire is already encoded once
    canon_uri = uri_encode(pct_decode(path), True)
    creq = '\n'.join([method, canon_uri, canonical_query(query), canon_headers, signed, declared])
    scope = '%s/%s/%s/aws4_request' % (date, region, service)
    sts = '\n'.join(['AWS4-HMAC-SHA256', amz, scope, hashlib.sha256(creq.encode()).hexdigest()])
    secret = secret_for(key_id)
    if secret is None:
        res['problems'].append('unknown access key')
        return res
    k = _h(_h(_h(_h(b'AWS4' + secret.encode(), date.encode()), region.encode()), service.encode()), b'aws4_request')
    good = hmac.new(k, sts.encode(), hashlib.sha256).hexdigest()
    res['sigOk'] = hmac.compare_digest(good, sig)
    res['declaredHash'] = declared
    res['bodyHash'] = hashlib.sha256(body).hexdigest()
    res['pathCanonical'] = is_canonically_encoded(path, True)
    res['queryCanonical'] = all(is_canonically_encoded(k_, False) and is_canonically_encoded(v_, False) for k_, v_ in split_query(query))
    res['querySorted'] = [p[0] for p in split_query(query)] == sorted(p[0] for p in split_query(query))
    return res
