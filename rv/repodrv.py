"""Driving real replicat repositories and recording RepoTrace traces.

A Session owns one repository (MemBackend store by default), a key graph, a source tree and the
projection (independent codec -> abstract names).  Every command is run in a fresh Repository object
on a fresh backend object (= a fresh process); the store's event log (exists / put / del in the order
the store applied them, plus begin/end/out markers written under the same lock) is turned into the
event vocabulary of spec/RepoTrace.tla.
"""
import datetime as _dt
import hashlib
import os
import random
import re
import threading
from pathlib import Path

from . import harness, membackend, refcodec
from .harness import Repository

GRAPHS = ('plain', 'same', 'shared', 'clone', 'indep', 'mixed')
MORE_GRAPHS = ('chain',)      # a owner, b shared from a, c shared from b, d independent, e clone of d
EPOCH = _dt.datetime(2030, 1, 1)


def indep_bytes_to_human(value):
    """independent re-statement of the size column: 3 significant decimals max, units of 1000"""
    for div, unit in ((1, 'B'), (1000, 'K'), (1000 ** 2, 'M'), (1000 ** 3, 'G')):
        if value < div * 1000 or unit == 'G':
            x = round(value / div, 2)
            s = ('%.2f' % x).rstrip('0').rstrip('.')
            return s + unit


class Session:
    def __init__(self, graph, root, *, seed=0, min_length=32, max_length=128, flavour='plain', concurrent=3,
                 cipher=None, hashing=None, cache=None, store=None, backend_factory=None, foreign=None, prebuilt=None):
        self.graph, self.root, self.seed = graph, Path(root), seed
        self.rng = random.Random(seed)
        self.src = self.root / 'src'
        self.src.mkdir(parents=True, exist_ok=True)
        self.world = harness.World(store=store, concurrent=concurrent, flavour=flavour, backend_factory=backend_factory)
        self.store = self.world.store
        harness.install_clock()
        enc = graph != 'plain'
        st = harness.settings(encrypted=enc, min_length=min_length, max_length=max_length, cipher=cipher, hashing=hashing)
        cache_of = (lambda u: cache.get(u) if isinstance(cache, dict) else str(self.root / ('cache-of-' + u)) if cache == '__private__' else cache)
        w = self.world
        # odd seeds create the additional keys WITHOUT KDF settings (the default path of add-key)
        fk = (lambda: None) if seed % 2 else (lambda: {'encryption': {'kdf': dict(harness.FAST_KDF)}})  # noqa: E731
        pwd = lambda t: b'pw-' + t      # noqa: E731
        if seed % 4 == 2 and enc:
            # every fourth seed: the BLAKE2b user KDF and passwords of exactly 64 bytes (its key-size limit)
            fk = lambda: {'encryption': {'kdf': {'name': 'blake2b'}}}     # noqa: E731
            pwd = lambda t: (b'pw-' + t + b'-').ljust(64, b'#')           # noqa: E731
            st['encryption']['kdf'] = {'name': 'blake2b'}
        if prebuilt is not None:
            # a repository and keys made elsewhere (e.g. through the command line): {user: (password, key file bytes)}; objects already in `store`
            for u_, (pw_, key_) in prebuilt.items():
                w.users[u_] = harness.User(u_, pw_, key_, cache_of(u_))
        else:
            w.init('a', pwd(b'a'), st, cache=cache_of('a'))
        if prebuilt is not None:
            pass
        elif graph == 'plain':
            w.users['b'] = harness.User('b', None, None, cache_of('b'))
        elif graph == 'same':
            w.users['b'] = harness.User('b', w.users['a'].password, w.users['a'].key, cache_of('b'))
        elif graph == 'shared':
            w.add_key('a', 'b', pwd(b'b'), shared=True, cache=cache_of('b'), settings_=fk())
        elif graph == 'clone':
            w.add_key('a', 'b', None, clone=True, cache=cache_of('b'), settings_=fk())
        elif graph == 'indep':
            w.add_key('a', 'b', pwd(b'b'), cache=cache_of('b'), settings_=fk())
        elif graph == 'mixed':
            w.add_key('a', 'b', pwd(b'b'), shared=True, cache=cache_of('b'), settings_=fk())
            w.add_key('a', 'c', pwd(b'c'), cache=cache_of('c'), settings_=fk())
        elif graph == 'chain':
            w.add_key('a', 'b', pwd(b'b'), shared=True, cache=cache_of('b'), settings_=fk())
            w.add_key('b', 'c', pwd(b'c'), shared=True, cache=cache_of('c'), settings_=fk())
            w.add_key('a', 'd', pwd(b'd'), cache=cache_of('d'), settings_=fk())
            w.add_key('d', 'e', None, clone=True, cache=cache_of('e'), settings_=fk())
        else:
            raise ValueError(graph)
        self.users = sorted(w.users)
        self.config = refcodec.loads(self.store.objs['config'])
        self.holders = {u: refcodec.Keys(self.config, w.users[u].key, w.users[u].password) for u in self.users}
        fams = {}
        self.fam = {}
        for u in self.users:
            fid = self.holders[u].family_id
            fams.setdefault(fid, 'P' if fid == 'plain' else 'F%d' % (len(fams) + 1))
            self.fam[u] = fams[fid]
        self.famkeys = {}
        for u in self.users:
            self.famkeys.setdefault(self.fam[u], self.holders[u])
        # ids
        self.cids = {}       # (fam, name) -> cid
        self.sids = {}       # location -> sid
        self.defs = []       # sid-1 -> def dict
        self.snapname = {}   # sid -> name (hex)
        self.paths = {}      # path str -> id
        self.versions = {}   # (path, sha, mtime_ns) -> vid
        self.digest_of = {}  # chunk location -> digest
        for n_, b_ in (foreign or {}).items():
            self.store.objs[n_] = b_
        self.mark = len(self.store.events)
        self.init_objs = dict(self.store.objs)
        self.np = 1
        self.dirty0 = []
        self.creator = {}      # snapshot location -> user who took it
        self.same_key = {u: [v for v in self.users if w.users[v].key == w.users[u].key and w.users[v].password == w.users[u].password] for u in self.users}
        self._lock = threading.Lock()

    def fork_at(self, nevents, root, crash_clients=()):
        """a copy of this session whose store holds exactly the effects of the first `nevents` recorded events;
        commands still in progress at that point are marked as crashed. The original is not touched."""
        import copy
        f = copy.copy(self)
        f.root = Path(root)
        f.root.mkdir(parents=True, exist_ok=True)
        keep = self.store.events[:self.mark + nevents]
        objs = dict(self.init_objs)
        open_cmds = {}
        for kind, name, data, client in keep[self.mark:]:
            if kind == 'put':
                objs[name] = data
            elif kind == 'del':
                objs.pop(name, None)
            elif kind == 'begin':
                open_cmds[client] = name['p']
            elif kind in ('end', 'crash'):
                open_cmds.pop(client, None)
        st = membackend.Store(objs)
        st.events = list(keep)
        for client, p_ in open_cmds.items():
            st.events.append(('crash', {'p': p_}, None, client))
        f.world = harness.World(store=st, concurrent=self.world.concurrent, flavour=self.world.flavour)
        f.world.users = self.world.users
        f.world.nclients = self.world.nclients + 1000
        f.store = st
        f.cids, f.sids, f.defs, f.snapname = dict(self.cids), dict(self.sids), list(self.defs), dict(self.snapname)
        f.paths, f.versions, f.digest_of = dict(self.paths), dict(self.versions), dict(self.digest_of)
        f.rng = random.Random(self.seed * 7919 + nevents)
        f._lock = threading.Lock()
        return f

    # ------------------------------------------------------------ ids
    def pid(self, path):
        path = str(path)
        return self.paths.setdefault(path, len(self.paths) + 1)

    def vid(self, path, data, mtime_ns, create=False):
        key = (str(path), hashlib.sha256(data).hexdigest(), mtime_ns)
        if create:
            return self.versions.setdefault(key, len(self.versions) + 1)
        return self.versions.get(key, 0)

    def cid(self, fam, name):
        return self.cids.setdefault((fam, name), len(self.cids) + 1)

    def chunk_fam(self, tag, name):
        for f, k in self.famkeys.items():
            if not k.encrypted:
                if tag == name:
                    return f
            elif refcodec.is_hex(name) and k.mac(bytes.fromhex(name)).hex() == tag:
                return f
        return '?'

    # ------------------------------------------------------------ source tree
    def write_file(self, rel, data, mtime_ns=None):
        p = self.src / rel
        p.parent.mkdir(parents=True, exist_ok=True)
        p.write_bytes(data)
        if mtime_ns is None:
            mtime_ns = 1_600_000_000_000_000_000 + self.rng.randrange(10 ** 15)
        os.utime(p, ns=(mtime_ns, mtime_ns))
        return p

    def capture(self, files):
        """[(path id, version id)] of the files as they are on disk now"""
        want = []
        for p in files:
            p = Path(p)
            st = p.stat()
            want.append([self.pid(p.resolve()), self.vid(p.resolve(), p.read_bytes(), st.st_mtime_ns, create=True)])
        return want

    # ------------------------------------------------------------ markers
    def _marker(self, kind, info, client):
        if kind == 'out' and getattr(self, 'ctx', None):
            info = dict(info, ctx=self.ctx)
        with self.store.lock:
            self.store.events.append((kind, info, None, client))

    def _run(self, p, kind, user, fn, info, *, fault=False, **kw):
        be = kw.pop('backend', None) or self.world.backend()
        if getattr(self, 'fault_next', False):
            fault, self.fault_next = True, False
        self.np = max(self.np, p)
        self._marker('begin', dict(info, p=p, k=kind, u=user), be.client_id)
        o = self.world.command(user, fn, backend=be, **kw)
        if isinstance(o.exc, membackend.Killed):
            self._marker('crash', {'p': p}, be.client_id)
        else:
            self._marker('end', {'p': p, 'ok': bool(o.ok), 'fault': bool(fault), 'etype': o.etype, 'hung': bool(getattr(o, 'hung', False))}, be.client_id)
        return o

    # ------------------------------------------------------------ commands
    def snapshot(self, user, files, *, p=1, note=None, **kw):
        files = [Path(f) for f in files]
        want = self.capture(files)
        allempty = all(f.stat().st_size == 0 for f in files)
        return self._run(p, 'snap', user, lambda r: r.snapshot(paths=files, note=note, rate_limit=kw.pop('rate_limit', None)),
                         {'want': want, 'D': [], 'unknown': False, 'allempty': allempty}, **kw)

    def delete(self, user, sids=(), *, names=(), p=1, **kw):
        nm = [self.snapname[s] for s in sids] + list(names)
        return self._run(p, 'del', user, lambda r: r.delete_snapshots(nm, confirm=False),
                         {'D': list(sids), 'unknown': bool(names)}, **kw)

    def clean(self, user, *, p=1, **kw):
        return self._run(p, 'clean', user, lambda r: r.clean(), {'D': [], 'unknown': False}, **kw)

    def _match(self, regex, items):
        if regex is None:
            return list(items.values())
        rx = re.compile(regex)
        return [i for s, i in items.items() if rx.search(s) is not None]

    def _S(self, regex):
        self.sync_defs()
        return sorted(self._match(regex, {n: s for s, n in self.snapname.items()}))

    def restore(self, user, snapshot_regex=None, file_regex=None, *, fault=False, target=None, **kw):
        tgt = Path(target) if target else self.root / ('restore_%d' % self.rng.randrange(10 ** 9))
        tgt.mkdir(parents=True, exist_ok=True)
        S = self._S(snapshot_regex)
        F = sorted(self._match(file_regex, self.paths))
        o = self.world.command(user, lambda r: r.restore(path=tgt, snapshot_regex=snapshot_regex, file_regex=file_regex,
                                                         rate_limit=kw.pop('rate_limit', None)), **kw)
        tree, extra = [], False
        if o.ok:
            for rel, (data, mt) in harness.read_tree(tgt).items():
                sp = '/' + rel
                if sp not in self.paths:
                    extra = True
                    continue
                tree.append([self.paths[sp], self.vid(sp, data, mt)])
        self._marker('out', {'a': 'restore', 'p': 1, 'u': user, 'S': S, 'F': F, 'ok': bool(o.ok), 'fault': bool(fault),
                             'tree': sorted(tree), 'extra': extra, 'etype': o.etype}, 'out')
        o.target = tgt
        return o

    def ls(self, user, snapshot_regex=None, columns=None, header=False, **kw):
        from replicat.utils import SnapshotListColumn as C
        allc = [C.NAME, C.NOTE, C.TIMESTAMP, C.FILE_COUNT, C.SIZE]
        cols = [C.NAME] + [c for c in (columns or allc) if c != C.NAME]
        S = self._S(snapshot_regex)
        o = self.world.command(user, lambda r: r.list_snapshots(snapshot_regex=snapshot_regex, header=header,
                                                                columns=None if columns is None else cols), **kw)
        rows, cells = [], True
        name2sid = {n: s for s, n in self.snapname.items()}
        if o.ok:
            lines = o.out.splitlines()
            if header and lines:
                hd = [x.strip() for x in lines[0].split('\t')]
                if hd != [Repository.SNAPSHOT_LIST_COLUMN_LABELS[c].upper() for c in cols]:
                    cells = False
                lines = lines[1:]
            for line in lines:
                c = [x.strip() for x in line.split('\t')]
                if len(c) != len(cols) or c[0] not in name2sid:
                    cells = False
                    continue
                sid = name2sid[c[0]]
                d = self.defs[sid - 1]
                readable = user in d['readers'] and d['fam'] == self.fam[user]
                truth = {C.NOTE: d['note'] if d['note'] is not None else '--', C.TIMESTAMP: d['stamp'],
                         C.FILE_COUNT: str(len(d['files'])), C.SIZE: indep_bytes_to_human(d['size'])}
                got = dict(zip(cols[1:], c[1:]))
                # "detailed" = some private cell is shown
                detailed = any(v != '--' for k, v in got.items())
                if len(cols) == 1:
                    detailed = readable      # name-only listing shows no private cell either way
                rows.append([sid, detailed])
                if detailed and readable:
                    if any(got[k] != truth[k] for k in got):
                        cells = False
        self._marker('out', {'a': 'ls', 'p': 1, 'u': user, 'S': S, 'ok': bool(o.ok), 'rows': rows, 'cells': cells, 'etype': o.etype}, 'out')
        return o

    def lf(self, user, snapshot_regex=None, file_regex=None, columns=None, header=False, **kw):
        from replicat.utils import FileListColumn as C
        S = self._S(snapshot_regex)
        F = sorted(self._match(file_regex, self.paths))
        extra = columns if columns is not None else [C.SNAPSHOT_DATE, C.CHUNK_COUNT, C.SIZE, C.DIGEST, C.MTIME]
        cols = [C.SNAPSHOT_NAME, C.PATH] + [c for c in extra if c not in (C.SNAPSHOT_NAME, C.PATH)]
        o = self.world.command(user, lambda r: r.list_files(snapshot_regex=snapshot_regex, file_regex=file_regex, header=header, columns=cols), **kw)
        rows, cells = [], True
        name2sid = {n: s for s, n in self.snapname.items()}
        if o.ok:
            lines = o.out.splitlines()
            if header and lines:
                hd = [x.strip() for x in lines[0].split('\t')]
                if hd != [Repository.FILE_LIST_COLUMN_LABELS[c].upper() for c in cols]:
                    cells = False
                lines = lines[1:]
            for line in lines:
                c = [x.strip() for x in line.split('\t')]
                if len(c) != len(cols) or c[0] not in name2sid or c[1] not in self.paths:
                    cells = False
                    continue
                sid = name2sid[c[0]]
                d = self.defs[sid - 1]
                rows.append([sid, self.paths[c[1]]])
                fi = d['fileinfo'].get(c[1])
                if fi is None:
                    cells = False
                    continue
                truth = {C.SNAPSHOT_DATE: d['stamp'], C.CHUNK_COUNT: str(fi['nchunks']), C.SIZE: indep_bytes_to_human(fi['size']),
                         C.DIGEST: fi['digest'], C.MTIME: fi['mtime'], C.ATIME: fi['atime'], C.CTIME: fi['ctime']}
                if any(v != truth[k] for k, v in zip(cols[2:], c[2:])):
                    cells = False
        self._marker('out', {'a': 'lf', 'p': 1, 'u': user, 'S': S, 'F': F, 'ok': bool(o.ok), 'rows': rows, 'cells': cells, 'etype': o.etype}, 'out')
        return o

    def unlock_matrix(self):
        """every (password of u2, key file of u1) pair: does it unlock and let a listing run?"""
        for k in self.users:
            for pw in self.users:
                uk, up = self.world.users[k], self.world.users[pw]
                tmp = harness.User('x', up.password, uk.key, None)
                o = self.world.command(tmp, lambda r: r.list_snapshots(header=False), cache=None)
                self._marker('out', {'a': 'unlock', 'p': 1, 'key': k, 'pw': pw, 'ok': bool(o.ok), 'etype': o.etype}, 'out')
        # impostors: wrong passwords that are close to the real one (longer, shorter, last byte changed)
        for k in self.users:
            uk = self.world.users[k]
            if uk.key is None or uk.password is None:
                continue
            real = uk.password
            for desc, wrong in ((('real+1', real + b'!'), ('real+many', real + b' and a long tail' * 5), ('real-1', real[:-1]), ('last-byte', real[:-1] + bytes([real[-1] ^ 1])))
                                if real else (('one-space', b' '), ('newline', b'\n'))):          # an empty pass phrase has no neighbours to cut from
                tmp = harness.User('x', wrong, uk.key, None)
                o = self.world.command(tmp, lambda r: r.list_snapshots(header=False), cache=None)
                self._marker('out', {'a': 'unlock', 'p': 1, 'key': k, 'pw': k, 'imp': desc, 'ok': bool(o.ok), 'etype': o.etype}, 'out')

    # ------------------------------------------------------------ projection
    def _decode_snapshot(self, loc, blob, objs):
        """independent decoding of a snapshot object at the moment it was stored"""
        area, tag, name = refcodec.split_location(loc)
        d = {'fam': '?', 'readers': [], 'table': [], 'ts': 0, 'files': [], 'note': None, 'wellformed': False,
             'stamp': '', 'size': 0, 'fileinfo': {}, 'digests': []}
        fam = None
        for f, k in self.famkeys.items():
            if refcodec.is_hex(name or '') and refcodec.is_hex(tag or ''):
                if (k.mac(bytes.fromhex(name)).hex() if k.encrypted else name) == tag:
                    fam = f
        if fam is None:
            return d
        d['fam'] = fam
        k0 = self.famkeys[fam]
        if k0.hash(blob).hex() != name:
            return d
        chunks = data = None
        for u in self.users:
            if self.fam[u] != fam:
                continue
            try:
                ch, da = self.holders[u].decode_snapshot(blob)
            except Exception:  # noqa: BLE001
                return d
            if ch is not None:
                chunks = ch
            if da is not None:
                data = da
                d['readers'].append(u)
        if chunks is None:
            return d
        d['digests'] = chunks
        for dg in chunks:
            cl = k0.chunk_location(dg)
            self.digest_of[cl] = dg
            nm, tg = k0.chunk_name_tag(dg)
            d['table'].append(self.cid(fam, nm))
        d['table'] = sorted(set(d['table']))
        if data is None:
            d['wellformed'] = True      # of the family, private part unreadable by every holder we have
            return d
        ts = _dt.datetime.fromisoformat(data['utc_timestamp'])
        d['ts'] = (ts - EPOCH) // _dt.timedelta(milliseconds=1)      # ms: distinct timestamps inside one second stay distinct
        d['stamp'] = ts.isoformat(sep=' ', timespec='seconds')
        d['note'] = data.get('note')
        ok = True
        for f in data['files']:
            refs = sorted(f['chunks'], key=lambda r: r['counter'])
            try:
                parts = []
                for r in refs:
                    pt = k0.decode_chunk(objs[k0.chunk_location(chunks[r['index']])], chunks[r['index']])
                    lo, hi = r['range']
                    if not (0 <= lo <= hi <= len(pt)):
                        raise refcodec.FormatError('range')
                    parts.append(pt[lo:hi])
                whole = b''.join(parts)
            except (KeyError, IndexError, refcodec.FormatError):
                ok = False
                whole = None
            md = f.get('metadata') or {}
            mt = md.get('st_mtime_ns')
            v = self.vid(f['path'], whole, mt) if whole is not None else 0
            d['files'].append([self.pid(f['path']), v])
            size = sum(r['range'][1] - r['range'][0] for r in f['chunks'])
            d['size'] += size
            def _fmt(ns):
                return _dt.datetime.fromtimestamp((ns or 0) / 1e9, tz=_dt.timezone.utc).replace(tzinfo=None).isoformat(sep=' ', timespec='seconds')
            d['fileinfo'][f['path']] = {'nchunks': len(f['chunks']), 'size': size,
                                        'digest': f['digest'].hex() if f.get('digest') else '--',
                                        'mtime': _fmt(mt), 'atime': _fmt(md.get('st_atime_ns')), 'ctime': _fmt(md.get('st_ctime_ns'))}
            if whole is not None and f.get('digest') is not None and k0.hash(whole) != f['digest']:
                ok = False
        d['files'] = sorted(d['files'])
        d['wellformed'] = ok
        return d

    def sync_defs(self):
        """decode every snapshot object stored so far (idempotent)"""
        objs = dict(self.init_objs)
        for ev in self.store.events[self.mark:]:
            kind, name, data, _ = ev
            if kind == 'put':
                objs[name] = data
                if name.startswith('snapshots/') and name not in self.sids:
                    d = self._decode_snapshot(name, data, objs)
                    self.defs.append(d)
                    self.sids[name] = len(self.defs)
                    self.snapname[len(self.defs)] = refcodec.split_location(name)[2]
            elif kind == 'del':
                objs.pop(name, None)

    def listed(self):
        self.sync_defs()
        return sorted(self.sids[n] for n in self.store.objs if n in self.sids)

    def readable(self, user):
        return [s for s in self.listed() if user in self.defs[s - 1]['readers'] and self.defs[s - 1]['fam'] == self.fam[user]]

    def visible(self, user):
        return [s for s in self.listed() if self.defs[s - 1]['fam'] == self.fam[user]]

    def _good(self, loc, blob):
        dg = self.digest_of.get(loc)
        area, tag, name = refcodec.split_location(loc)
        fam = self.chunk_fam(tag, name)
        if fam == '?':
            return True
        k = self.famkeys[fam]
        if not k.encrypted:
            return refcodec.is_hex(name) and k.hash(blob).hex() == name
        if dg is None:
            return True          # never referenced by any snapshot of this run: content not judged
        try:
            k.decode_chunk(blob, dg)
            return True
        except refcodec.FormatError:
            return False

    def trace(self, events=None, init_objs=None, extra=None):
        """-> dict for RepoTrace.tla built from the store's event log since the session started"""
        self.sync_defs()
        events = self.store.events[self.mark:] if events is None else events
        init_objs = self.init_objs if init_objs is None else init_objs
        procs = {}       # client -> (p, begin info)
        out = []
        for kind, name, data, client in events:
            if kind == 'begin':
                procs[client] = (name['p'], name)
                out.append({'a': 'begin', 'p': name['p'], 'k': name['k'], 'u': name['u'], 'D': name['D'], 'unknown': name['unknown'],
                            'want': sorted(name.get('want', []))})
                continue
            if kind == 'end':
                out.append({'a': 'end', 'p': name['p'], 'ok': name['ok'], 'fault': name['fault'], 'hung': bool(name.get('hung'))})
                procs.pop(client, None)
                continue
            if kind == 'crash':
                out.append({'a': 'crash', 'p': name['p']})
                procs.pop(client, None)
                continue
            if kind == 'out':
                out.append({k: v for k, v in name.items() if k != 'etype'})
                continue
            p, binfo = procs.get(client, (0, None))
            if p == 0:
                continue        # backend calls of read-only commands (unlock, listings): not part of the vocabulary
            area, tag, nm = refcodec.split_location(name)
            if area == 'chunk':
                f = self.chunk_fam(tag, nm)
                c = self.cid(f, nm)
                if kind == 'exists':
                    out.append({'a': 'exists', 'p': p, 'f': f, 'c': c, 'r': bool(data)})
                elif kind == 'put':
                    out.append({'a': 'putc', 'p': p, 'f': f, 'c': c, 'good': self._good(name, data)})
                else:
                    out.append({'a': 'delc', 'p': p, 'f': f, 'c': c})
            elif area == 'snap':
                s = self.sids.get(name)
                if kind == 'put':
                    out.append({'a': 'puts', 'p': p, 's': s, 'want': sorted(binfo.get('want', [])),
                                'wellformed': self.defs[s - 1]['wellformed'], 'allempty': bool(binfo.get('allempty')),
                                'decoders': self.defs[s - 1]['readers'], 'intended': self.same_key.get(binfo.get('u'), [])})
                elif kind == 'del' and s is not None:
                    out.append({'a': 'dels', 'p': p, 's': s})
            else:
                if kind == 'put':
                    out.append({'a': 'puto', 'p': p, 'o': name})
                elif kind == 'del':
                    out.append({'a': 'delo', 'p': p, 'o': name})
        chunks0, snaps0 = [], []
        for loc in init_objs:
            area, tag, nm = refcodec.split_location(loc)
            if area == 'chunk':
                f = self.chunk_fam(tag, nm)
                chunks0.append([f, self.cid(f, nm)])
            elif area == 'snap' and loc in self.sids:
                snaps0.append(self.sids[loc])
        pws = {}
        pw = {u: pws.setdefault(self.world.users[u].password, len(pws) + 1) for u in self.users}
        # timestamps in ms relative to the oldest one of this repository (order and ties preserved, values small enough for TLC's 32-bit integers)
        stamped = [d['ts'] for d in self.defs if d.get('stamp')]
        ts0 = min(stamped) if stamped else 0
        t = {'graph': self.graph, 'seed': self.seed, 'np': max(self.np, 1), 'fam': dict(self.fam), 'pw': pw,
             'init': {'chunks': chunks0, 'snaps': snaps0, 'dirty': list(self.dirty0)},
             'snapdefs': [{'fam': d['fam'], 'readers': d['readers'], 'table': d['table'], 'ts': (d['ts'] - ts0) if d.get('stamp') else 0, 'files': d['files']} for d in self.defs],
             'events': out}
        if extra:
            t.update(extra)
        return t


# ---------------------------------------------------------------- random content and histories
class Content:
    """file contents with controlled overlap: a pool of random blocks, files are concatenations"""

    def __init__(self, rng, nblocks=10, lo=40, hi=400):
        self.rng = rng
        self.blocks = [rng.randbytes(rng.randrange(lo, hi)) for _ in range(nblocks)]
        self.blocks.append(bytes(rng.randrange(64, 600)))          # zeros
        self.blocks.append(rng.randbytes(8) * rng.randrange(10, 60))  # periodic

    def make(self):
        r = self.rng
        k = r.choice([0, 1, 1, 2, 3, 4, 6])
        data = b''.join(r.choice(self.blocks) for _ in range(k))
        if data and r.random() < 0.3:
            i = r.randrange(len(data))
            data = data[:i] + r.randbytes(r.choice([1, 3, 4, 8])) + data[i:]
        if data and r.random() < 0.2:
            data = data[:r.randrange(len(data))]
        return data


def random_history(sess, n, *, names=8, p_snapshot=0.4, p_overlap=0.08, p_delete=0.2, p_clean=0.12, p_crash=0.0, p_overlap_fail=0.35, reads=True):
    """run n random commands on the session; returns list of short descriptions"""
    r = sess.rng
    content = Content(r)
    files = ['f%d.bin' % i for i in range(names // 2)] + ['d/g%d.dat' % i for i in range(names - names // 2)]
    live = {}
    desc = []
    for _ in range(n):
        x = r.random()
        u = r.choice(sess.users)
        if x > 1 - p_crash and live:
            k = r.randrange(0, 6)
            be = sess.world.backend(gate=KillAfter(k))
            y = r.random()
            if y < 0.6 or not sess.readable(u):
                pick = r.sample(sorted(live), r.randrange(1, len(live) + 1))
                for f in pick[:2]:
                    live[f] = sess.write_file(f, content.make())
                o = sess.snapshot(u, [live[f] for f in pick], backend=be)
                desc.append('killed@%d snapshot(%s,%s)->%s' % (k, u, pick, o.etype))
            elif y < 0.85:
                D = r.sample(sess.readable(u), r.randrange(1, min(len(sess.readable(u)), 2) + 1))
                o = sess.delete(u, D, backend=be)
                desc.append('killed@%d delete(%s,%s)->%s' % (k, u, D, o.etype))
            else:
                o = sess.clean(u, backend=be)
                desc.append('killed@%d clean(%s)->%s' % (k, u, o.etype))
        elif x < p_snapshot or not sess.listed():
            # mutate the tree a little
            for _ in range(r.randrange(1, 4)):
                f = r.choice(files)
                if f in live and r.random() < 0.2:
                    (sess.src / f).unlink()
                    del live[f]
                else:
                    live[f] = sess.write_file(f, content.make())
            if not live:
                f = r.choice(files)
                live[f] = sess.write_file(f, content.make())
            pick = r.sample(sorted(live), r.randrange(1, len(live) + 1))
            o = sess.snapshot(u, [live[f] for f in pick])
            desc.append('snapshot(%s,%s)->%s' % (u, pick, o.etype))
        elif x < p_snapshot + p_overlap and live:
            # two clients at the same time (README: non-destructive commands may overlap)
            us = [r.choice(sess.users), r.choice(sess.users)]
            picks = [r.sample(sorted(live), r.randrange(1, len(live) + 1)) for _ in us]
            rd = sess.readable(us[1])
            if r.random() < p_overlap_fail:
                # one of the two clients hits a backend call that fails for good while the other one is running
                for f in picks[0][:2]:
                    live[f] = sess.write_file(f, content.make() + r.randbytes(300))
                be = sess.world.backend(gate=StallThenFail(r.randrange(2, 7)))
                os_ = harness.run_parallel([
                    (lambda u=us[0], pk=picks[0], be=be: sess.snapshot(u, [live[f] for f in pk], p=1, backend=be, fault=True)),
                    (lambda u=us[1], pk=picks[0]: sess.snapshot(u, [live[f] for f in pk], p=2))])
                desc.append('overlap(failing snapshot(%s,%s) || snapshot(%s,same files))->%s' % (us[0], picks[0], us[1], [getattr(o, 'etype', repr(o)) for o in os_]))
            elif rd and r.random() < 0.4:
                # a restore of one existing snapshot by name while another client takes a snapshot
                nm = sess.snapname[r.choice(rd)]
                os_ = harness.run_parallel([
                    (lambda u=us[0], pk=picks[0]: sess.snapshot(u, [live[f] for f in pk], p=1)),
                    (lambda u=us[1], nm=nm: sess.restore(u, '^%s$' % nm))])
                desc.append('overlap(snapshot(%s,%s) || restore(%s,%s))->%s' % (us[0], picks[0], us[1], nm[:8], [getattr(o, 'etype', repr(o)) for o in os_]))
            else:
                os_ = harness.run_parallel([
                    (lambda u=us[0], pk=picks[0]: sess.snapshot(u, [live[f] for f in pk], p=1)),
                    (lambda u=us[1], pk=picks[1]: sess.snapshot(u, [live[f] for f in pk], p=2))])
                desc.append('overlap(snapshot(%s,%s) || snapshot(%s,%s))->%s' % (us[0], picks[0], us[1], picks[1], [getattr(o, 'etype', repr(o)) for o in os_]))
        elif x < p_snapshot + p_overlap + p_delete:
            listed = sess.listed()
            y = r.random()
            if y < 0.7 and sess.readable(u):
                pool = sess.readable(u)
            else:
                pool = listed
            D = r.sample(pool, r.randrange(1, min(len(pool), 2) + 1))
            names_ = ['0' * 16] if r.random() < 0.05 else []
            o = sess.delete(u, D, names=names_)
            desc.append('delete(%s,%s,%s)->%s' % (u, D, names_, o.etype))
        elif x < p_snapshot + p_overlap + p_delete + p_clean:
            o = sess.clean(u)
            desc.append('clean(%s)->%s' % (u, o.etype))
        elif reads:
            y = r.random()
            S = None
            if r.random() < 0.4 and sess.snapname:
                nm = sess.snapname[r.choice(sorted(sess.snapname))]
                S = r.choice(['^' + nm + '$', nm[:3], nm[-2:] + '$', '^[0-7]'])
            F = r.choice([None, None, r'\.bin$', '/d/', 'f1|g2', '^/nomatch'])
            if y < 0.5:
                o = sess.restore(u, S, F)
                desc.append('restore(%s,%s,%s)->%s' % (u, S, F, o.etype))
            elif y < 0.75:
                o = sess.ls(u, S)
                desc.append('ls(%s,%s)->%s' % (u, S, o.etype))
            else:
                o = sess.lf(u, S, F)
                desc.append('lf(%s,%s,%s)->%s' % (u, S, F, o.etype))
    return desc


class Jitter:
    """gate: random small delays so that concurrent backend calls complete in varying orders"""

    def __init__(self, rng, scale=0.002):
        self.rng, self.scale = rng, scale

    def __call__(self, be, op, name):
        import time
        time.sleep(self.rng.random() * self.scale)


class DelayPrefix:
    """gate: backend calls on names with this prefix take longer than all others (adversarial completion order)"""

    def __init__(self, prefix, delay=0.02):
        self.prefix, self.delay = prefix, delay

    def __call__(self, be, op, name):
        import time
        if name.startswith(self.prefix) and op in ('upload', 'upload_stream', 'delete'):
            time.sleep(self.delay)


class FailNth:
    """gate: the n-th backend call of the process (any operation) fails for good"""

    def __init__(self, n, exc=None):
        self.n, self.i, self.exc = n, 0, exc
        self.lock = threading.Lock()
        self.fired = None

    def __call__(self, be, op, name):
        with self.lock:
            self.i += 1
            if self.i == self.n:
                self.fired = (op, name)
                raise (self.exc or OSError('injected permanent failure of %s(%s)' % (op, name)))


class StallThenFail:
    """gate: the n-th chunk upload of this client stalls for a moment and then fails for good (an exception, the process survives)"""

    def __init__(self, n, stall=0.05):
        self.n, self.i, self.stall = n, 0, stall
        self.lock = threading.Lock()

    def __call__(self, be, op, name):
        import time
        if op != 'upload_stream':
            return
        with self.lock:
            self.i += 1
            hit = self.i == self.n
        if hit:
            time.sleep(self.stall)
            raise OSError('injected permanent failure of upload #%d' % self.n)


class KillAfter:
    """gate: the process dies immediately before its (k+1)-th backend mutation"""

    def __init__(self, k):
        self.k, self.n = k, 0
        self.lock = threading.Lock()

    def __call__(self, be, op, name):
        if op not in ('upload', 'upload_stream', 'delete'):
            return
        with self.lock:
            if self.n >= self.k:
                be.dead = True
                raise membackend.Killed()
            self.n += 1


# ---------------------------------------------------------------- L2: replay of Repo.tla behaviours
BLOCK = 64


class SelectiveKill:
    """gate for MemBackend: let exactly the mutations in `allowed` (set of abstract ids) land, park all
    other mutations, then kill the process (every parked and later call raises Killed)"""

    def __init__(self, ident, allowed, timeout=3.0):
        self.ident, self.allowed, self.timeout = ident, set(allowed), timeout
        self.passed = set()
        self.done = 0
        self.cv = threading.Condition()
        self.stuck = False

    def __call__(self, be, op, name):
        if op not in ('upload', 'upload_stream', 'delete'):
            return
        i = self.ident(name)
        with self.cv:
            if not self.allowed:
                be.dead = True
                self.cv.notify_all()
                raise membackend.Killed()
            if i in self.allowed and i not in self.passed:
                self.passed.add(i)
                return
            if not self.cv.wait_for(lambda: be.dead, timeout=self.timeout):
                self.stuck = True
                be.dead = True
                self.cv.notify_all()
        raise membackend.Killed()

    def after(self, be):
        """called by the backend after a mutation took effect"""
        with self.cv:
            self.done += 1
            if self.done >= len(self.allowed):
                be.dead = True
                self.cv.notify_all()

    @property
    def landed(self):
        return self.passed


class L2Replayer:
    """Steps one TLC behaviour of Repo.tla (Procs = {1}) through the real commands.  cid c <-> a unique
    64-byte block (min = max = 64 chunking), abstract snapshot table T <-> one file per cid."""

    def __init__(self, graph, root, seed=0, flavour='plain'):
        self.s = Session(graph, root, seed=seed, min_length=BLOCK, max_length=BLOCK, concurrent=8, flavour=flavour)
        self.blocks = {}
        self.cid_of_digest = {}
        self.problems = []
        self.steps = 0

    def block(self, c):
        if c not in self.blocks:
            self.blocks[c] = hashlib.sha256(b'block-%d-%d' % (self.s.seed, c)).digest() * 2
            for f, k in self.s.famkeys.items():
                nm, _ = k.chunk_name_tag(k.hash(self.blocks[c]))
                self.cid_of_digest[(f, nm)] = c
        return self.blocks[c]

    def concrete_state(self):
        """-> (set of (fam, cid), set of sid) projected from the store"""
        self.s.sync_defs()
        chunks, snaps = set(), set()
        for loc in self.s.store.objs:
            area, tag, nm = refcodec.split_location(loc)
            if area == 'chunk':
                f = self.s.chunk_fam(tag, nm)
                chunks.add((f, self.cid_of_digest.get((f, nm), 'unknown:' + nm[:8])))
            elif area == 'snap':
                snaps.add(self.s.sids.get(loc, 0))
        return chunks, snaps

    @staticmethod
    def abstract_state(st):
        chunks = {(o[1], o[2]) for o in st['objs'] if o[0] == 'c'}
        snaps = {o[1] for o in st['objs'] if o[0] == 's'}
        return chunks, snaps

    def compare(self, st, where):
        """kinds of disagreement between TLC's state and the projected backend:
        missing-chunk / missing-snapshot (the backend lacks what the model has), extra-chunk / extra-snapshot"""
        a, c = self.abstract_state(st), self.concrete_state()
        kinds = []
        if a[0] - c[0]:
            kinds.append('missing-chunk')
        if a[1] - c[1]:
            kinds.append('missing-snapshot')
        if c[0] - a[0]:
            kinds.append('extra-chunk')
        if c[1] - a[1]:
            kinds.append('extra-snapshot')
        if kinds:
            self.problems.append({'where': where, 'kinds': kinds, 'abstract': [sorted(map(list, a[0])), sorted(a[1])],
                                  'concrete': [sorted(map(list, c[0]), key=str), sorted(c[1])]})
            return False
        return True

    def _ident(self, fam):
        def ident(name):
            area, tag, nm = refcodec.split_location(name)
            if area == 'chunk':
                f = self.s.chunk_fam(tag, nm)
                return ('c', self.cid_of_digest.get((f, nm)))
            if area == 'snap':
                return ('s', self.s.sids.get(name, 'new'))
            return ('o', name)
        return ident

    def run(self, beh):
        """beh: list of (action, state). Returns number of commands replayed; problems in self.problems"""
        beh = [(st['last']['a'], st) for _, st in beh]     # TLC labels nested disjuncts 'Next': use the history variable
        i, n, cmds = 1, len(beh), 0
        while i < n:
            act, st = beh[i]
            last = st['last']
            if act == 'SnapBegin':
                u, T = last['u'], sorted(last['T'])
                j, ups, end = i + 1, [], None
                while j < n:
                    a2, s2 = beh[j]
                    if a2 == 'SnapUpload':
                        ups.append(s2['last']['c'])
                    if a2 in ('SnapCommit', 'Crash', 'SnapAbortEnd'):
                        end = a2
                        break
                    j += 1
                if end is None:
                    break       # behaviour ends mid-command: nothing to compare
                files = []
                for c in T:
                    files.append(self.s.write_file('b%d.bin' % c, self.block(c), mtime_ns=1_700_000_000_000_000_000 + c))
                failed = any(a == 'Fail' for a, _ in beh[i:j + 1])
                if end == 'SnapCommit' and not failed:
                    o = self.s.snapshot(u, files)
                    if not o.ok:
                        self.problems.append({'where': 'snapshot raised', 'kinds': ['command-failed'], 'etype': o.etype, 'step': i})
                else:
                    allowed = {('c', c) for c in ups}
                    self._killed_command(lambda be: self.s.snapshot(u, files, backend=be), allowed, u)
                cmds += 1
                self.compare(beh[j][1], 'after %s of snapshot at step %d' % (end, j))
                i = j + 1
            elif act == 'DelBegin':
                u, D, r = last['u'], sorted(last['D']), last['r']
                if r == 'refused':
                    before = self.concrete_state()
                    known = [d for d in D if d in self.s.snapname]
                    o = self.s.delete(u, known, names=['f' * 16] if len(known) < len(D) else [])
                    if o.ok or self.concrete_state() != before:
                        self.problems.append({'where': 'delete should have been refused', 'kinds': ['not-refused'], 'step': i, 'ok': o.ok})
                    cmds += 1
                    i += 1
                    continue
                j, dels, end = i + 1, [], None
                while j < n:
                    a2, s2 = beh[j]
                    if a2 == 'DelSn':
                        dels.append(('s', s2['last']['s']))
                    if a2 == 'DelCh':
                        dels.append(('c', s2['last']['c']))
                    if a2 in ('End', 'Crash', 'FailedEnd'):
                        end = a2
                        break
                    j += 1
                if end is None:
                    break
                if end == 'End':
                    o = self.s.delete(u, D)
                    if not o.ok:
                        self.problems.append({'where': 'delete raised', 'kinds': ['command-failed'], 'etype': o.etype, 'step': i})
                else:
                    self._killed_command(lambda be: self.s.delete(u, D, backend=be), set(dels), u)
                cmds += 1
                self.compare(beh[j][1], 'after %s of delete at step %d' % (end, j))
                i = j + 1
            elif act == 'CleanBegin':
                u = last['u']
                j, dels, end = i + 1, [], None
                while j < n:
                    a2, s2 = beh[j]
                    if a2 == 'DelCh':
                        dels.append(('c', s2['last']['c']))
                    if a2 in ('End', 'Crash', 'FailedEnd'):
                        end = a2
                        break
                    j += 1
                if end is None:
                    break
                if end == 'End':
                    o = self.s.clean(u)
                    if not o.ok:
                        self.problems.append({'where': 'clean raised', 'kinds': ['command-failed'], 'etype': o.etype, 'step': i})
                else:
                    self._killed_command(lambda be: self.s.clean(u, backend=be), set(dels), u)
                cmds += 1
                self.compare(beh[j][1], 'after %s of clean at step %d' % (end, j))
                i = j + 1
            else:
                i += 1
        self.steps += n
        return cmds

    def _killed_command(self, run, allowed, user):
        gate = SelectiveKill(self._ident(self.s.fam[user]), allowed)
        be = self.s.world.backend(gate=gate)
        be.after_mutation = gate.after
        o = run(be)
        if gate.stuck:
            self.problems.append({'where': 'unreplayable: scripted mutations never arrived', 'kinds': ['unreplayable'], 'allowed': sorted(map(str, allowed)),
                                  'landed': sorted(map(str, gate.landed))})
        return o


# ---------------------------------------------------------------- L2: two client processes, step-level interleavings
class StepGate:
    """gate of one client process: every exists / upload / upload_stream / delete on a chunk or snapshot name parks until the
    scheduler releases exactly that call (or the process is killed)"""

    def __init__(self, ident):
        self.ident = ident
        self.cv = threading.Condition()
        self.parked = {}      # (op, id) -> released?
        self.landed = set()
        self.dead = False

    def __call__(self, be, op, name):
        if op not in ('exists', 'upload', 'upload_stream', 'delete') or not name.startswith(('data/', 'snapshots/')):
            return
        key = (op, self.ident(name))
        with self.cv:
            self.parked[key] = False
            self.cv.notify_all()
            while not self.parked[key] and not self.dead:
                self.cv.wait(0.05)
            del self.parked[key]
            if self.dead:
                be.dead = True
                raise membackend.Killed()

    def wait_parked(self, key, timeout=3.0):
        import time
        end = time.time() + timeout
        with self.cv:
            while key not in self.parked:
                left = end - time.time()
                if left <= 0:
                    return False
                self.cv.wait(min(left, 0.05))
        return True

    def any_parked(self, op, timeout=3.0):
        import time
        end = time.time() + timeout
        with self.cv:
            while True:
                ks = [k for k in self.parked if k[0] == op]
                if ks:
                    return ks[0]
                left = end - time.time()
                if left <= 0:
                    return None
                self.cv.wait(min(left, 0.05))

    def release(self, key):
        with self.cv:
            self.parked[key] = True
            self.cv.notify_all()

    def kill(self):
        with self.cv:
            self.dead = True
            self.cv.notify_all()


class InterleavedReplayer(L2Replayer):
    """TLC behaviours of Repo.tla with two client processes taking snapshots at the same time (README: non-destructive commands may
    overlap): each SnapCheck / SnapUpload / SnapCommit / Crash step of the behaviour releases exactly the corresponding backend call
    of the corresponding real process; the projected backend is compared with TLC's state after every step."""

    def run(self, beh):
        import time
        beh = [(st['last']['a'], st) for _, st in beh]
        procs = {}     # p -> dict(thread, gate, be, result)
        steps = 0
        for i in range(1, len(beh)):
            act, st = beh[i]
            last = st['last']
            p = last.get('p')
            if act == 'SnapBegin':
                u, T = last['u'], sorted(last['T'])
                files = [self.s.write_file('p%d/b%d.bin' % (p, c), self.block(c), mtime_ns=1_700_000_000_000_000_000 + c) for c in T]
                gate = StepGate(self._ident(None))
                be = self.s.world.backend(gate=gate)
                landed = threading.Event()
                be.after_mutation = lambda b, ev=landed: ev.set()
                box = {}

                def body(u=u, files=files, be=be, p=p, box=box):
                    harness._NOCAP.on = True
                    box['o'] = self.s.snapshot(u, files, p=p, backend=be)
                th = threading.Thread(target=body, daemon=True)
                th.start()
                procs[p] = {'thread': th, 'gate': gate, 'be': be, 'box': box, 'landed': landed}
            elif act in ('SnapCheck', 'SnapUpload') and p in procs:
                pr = procs[p]
                key = ('exists' if act == 'SnapCheck' else 'upload_stream', ('c', last['c']))
                if not pr['gate'].wait_parked(key):
                    self.problems.append({'where': 'unreplayable: %s(%s,%s) never arrived' % (act, p, last['c']), 'kinds': ['unreplayable']})
                    break
                pr['landed'].clear()
                pr['gate'].release(key)
                if act == 'SnapUpload':
                    pr['landed'].wait(3.0)
                elif last.get('r') is not None:
                    pass
            elif act == 'SnapCommit' and p in procs:
                pr = procs[p]
                key = pr['gate'].any_parked('upload')
                if key is None:
                    self.problems.append({'where': 'unreplayable: commit of process %s never arrived' % p, 'kinds': ['unreplayable']})
                    break
                pr['landed'].clear()
                pr['gate'].release(key)
                pr['landed'].wait(3.0)
                pr['thread'].join(5.0)
                o = pr['box'].get('o')
                if o is None or not o.ok:
                    self.problems.append({'where': 'snapshot of process %s raised' % p, 'kinds': ['command-failed'], 'etype': getattr(o, 'etype', 'hung')})
                procs.pop(p)
            elif act == 'Crash' and p in procs:
                pr = procs.pop(p)
                pr['gate'].kill()
                pr['thread'].join(5.0)
            elif act == 'Fail':
                pass       # one backend call fails for good: calls in flight may still land (they stay steps of the behaviour); no commit follows
            elif act == 'SnapAbortEnd' and p in procs:
                pr = procs.pop(p)
                pr['gate'].kill()
                pr['thread'].join(5.0)
            else:
                continue
            steps += 1
            # let the released call take effect before looking
            time.sleep(0.002)
            self.compare(st, 'after %s(p=%s) at step %d' % (act, p, i))
            if self.problems and 'unreplayable' not in self.problems[-1]['kinds']:
                break
        for pr in procs.values():
            pr['gate'].kill()
            pr['thread'].join(5.0)
        return steps
