"""Entry point: python -m rv.check Cnn [--tier quick|thorough] [--replay file]

exit 0: property held on everything explored (KNOWN-FINDING lines possible)
exit 1: at least one `VIOLATION property=<id> replay=<path>` line was printed
exit 2: machinery failure (never accompanied by a VIOLATION line)
"""
import argparse
import importlib
import os
import sys
import traceback

LEVELS = {
    'C01': 'model_checking', 'C02': 'model_checking', 'C03': 'fault_enumeration', 'C04': 'fault_enumeration',
    'C05': 'other', 'C06': 'model_checking', 'C07': 'model_checking', 'C08': 'model_checking',
    'C09': 'model_checking', 'C10': 'model_checking', 'C11': 'model_checking', 'C12': 'fault_enumeration',
    'C13': 'model_checking', 'C14': 'translation_validation', 'C15': 'model_checking', 'C16': 'other',
    'C17': 'model_checking', 'C18': 'model_checking', 'C19': 'model_checking', 'C20': 'model_checking',
}


def main():
    ap = argparse.ArgumentParser()
    ap.add_argument('pid')
    ap.add_argument('--tier', default=os.environ.get('VERIF_TIER', 'quick'), choices=['quick', 'thorough'])
    ap.add_argument('--replay')
    a = ap.parse_args()
    seed = int(os.environ.get('VERIF_SEED', '0') or 0)
    from . import evidence, tlc
    # safety net: a change that makes a command hang in a place no per-command watchdog covers must not hang the check itself
    deadline = float(os.environ.get('VERIF_DEADLINE', '1500' if a.tier == 'quick' else '0') or 0)
    if deadline > 0:
        import threading

        def _expired():
            print('MACHINERY-FAILURE %s: the check did not finish within %ds (a command hung outside every watchdog?)' % (a.pid, deadline), file=sys.stderr)
            sys.stderr.flush()
            os._exit(2)
        _t = threading.Timer(deadline, _expired)
        _t.daemon = True
        _t.start()
    try:
        mod = importlib.import_module('rv.drivers.' + a.pid.lower())
        run = evidence.Run(a.pid, a.tier, seed, getattr(mod, 'LEVEL', LEVELS.get(a.pid, 'other')))
        if a.replay:
            mod.replay(run, a.replay)
        else:
            mod.main(run)
        rc = run.finish()
    except tlc.MachineryError as e:
        print('MACHINERY-FAILURE %s: %s' % (a.pid, e), file=sys.stderr)
        sys.exit(2)
    except Exception:  # noqa: BLE001
        traceback.print_exc()
        print('MACHINERY-FAILURE %s: harness raised' % a.pid, file=sys.stderr)
        sys.exit(2)
    sys.stdout.flush()
    os._exit(rc)


if __name__ == '__main__':
    main()
