"""Subprocess entry: run one replicat command on the real local backend (used under strace).
usage: python -m rv.localcmd <json file>"""
import asyncio
import base64
import json
import sys
from pathlib import Path

sys.path.insert(0, __import__('os').environ.get('RV_REPO', '/repo'))


def main():
    a = json.load(open(sys.argv[1]))
    from replicat.backends.local import Local
    from replicat.repository import Repository
    Repository.display_status = lambda self, m: None
    Repository.display_danger = lambda self, m: None
    repo = Repository(Local(a['dir']), concurrent=a.get('concurrent', 3), quiet=True, cache_directory=None)
    pw = base64.b64decode(a['password']) if a.get('password') else None
    key = base64.b64decode(a['key']) if a.get('key') else None

    async def go():
        await repo.unlock(password=pw, key=key)
        if a['cmd'] == 'snapshot':
            await repo.snapshot(paths=[Path(p) for p in a['paths']])
        elif a['cmd'] == 'delete':
            await repo.delete_snapshots(a['names'], confirm=False)
        elif a['cmd'] == 'clean':
            await repo.clean()
        await repo.close()
    if a.get('fsgate'):
        # make file-system calls of different threads in one directory coincide (only timing changes): two workers storing the same
        # object name then really do it at the same time
        from rv import fsgate
        with fsgate.Rendezvous(a['dir'], wait=0.06):
            asyncio.run(go())
    else:
        asyncio.run(go())


main()
