"""The REAL S3 adapter between the repository commands and the shared object store of a Session.

membackend.Store stays the single source of truth (object map + event log in the order the store applied the operations), but the commands
reach it through replicat.backends.s3c.S3Compatible -> httpx.MockTransport -> rv.fakes3.FakeS3 (signatures verified, listings paged with a
small page size, continuation tokens). So the repository-level properties (C02 C07 C08 ...) are also exercised over the adapter's paging,
naming and listing code, not only over an ideal in-memory backend.
"""
from . import fakes3


class _View:
    """dict-like view of store.objs that logs what membackend would log"""

    def __init__(self, owner):
        self.o = owner

    def __contains__(self, k):
        st = self.o.store
        with st.lock:
            r = k in st.objs
            if self.o._method == 'HEAD':
                st.events.append(('exists', k, r, self.o.client_id))
        return r

    def __getitem__(self, k):
        return self.o.store.objs[k]

    def __iter__(self):
        with self.o.store.lock:
            return iter(list(self.o.store.objs))

    def __setitem__(self, k, v):
        st = self.o.store
        with st.lock:
            st.objs[k] = bytes(v)
            st.mutlog.append(('put', k, bytes(v), self.o.client_id))
            st.events.append(('put', k, bytes(v), self.o.client_id))

    def pop(self, k, default=None):
        st = self.o.store
        with st.lock:
            existed = k in st.objs
            st.objs.pop(k, None)
            st.mutlog.append(('del', k, None, self.o.client_id))
            st.events.append(('del', k, existed, self.o.client_id))
        return default


class StoreS3(fakes3.FakeS3):
    def __init__(self, store, client_id, page_size):
        super().__init__(page_size=page_size)
        self.store, self.client_id = store, client_id
        self.objects = _View(self)
        self._method = ''
        self.op_limit = 10 ** 9
        self.signature_failures = 0

    def _respond(self, request, body):
        self._method = request.method
        r = super()._respond(request, body)
        if r.status_code == 403:
            self.signature_failures += 1
        self.requests.clear()       # nothing here needs the captured requests; whole histories would accumulate megabytes
        return r


def factory(store, page_size=3):
    """-> backend_factory for harness.World / repodrv.Session: every command gets its own adapter object and its own service view"""
    def make(client_id='c', gate=None, **kw):
        if gate is not None:
            raise ValueError('gates are a feature of the in-memory backend; S3-flavoured sessions run fault-free histories')
        be = fakes3.client(StoreS3(store, client_id, page_size))
        be.client_id = client_id        # the Session tags its begin / end markers with it
        return be
    return make
