"""Fault scripts (from Transfer.tla) executed against the real adapters.

A script is a list of (attempt number, position, kind): the attempt-th try of the data transfer fails after `position` stream
chunks; kind io = I/O error / dropped connection, status = 5xx or 429 response, auth = expired authorisation (B2)."""
import asyncio
import inspect
import io
import zlib
import os
from pathlib import Path

import httpx

from . import fakeb2, fakes3, harness, vclock  # noqa: F401

CHUNK = 16


def wrap_reader(raw, limit=10 ** 12):
    """the way snapshot / upload-objects wrap a source stream"""
    from replicat import utils
    lim = utils.RateLimitedIO(limit)
    return utils.TQDMIOReader(lim.wrap(raw), desc='x', total=None, position=0, disable=True)


def wrap_writer(raw):
    from replicat import utils
    lim = utils.RateLimitedIO(10 ** 12)
    return utils.TQDMIOWriter(lim.wrap(raw), desc='x', total=None, position=0, disable=True)


class FaultyReader(io.BytesIO):
    """source stream that raises OSError at scripted (attempt, read index); an attempt ends with every raised fault"""

    def __init__(self, data, script):
        super().__init__(data)
        self.script = {a: (p, k) for a, p, k in script}
        self.attempt, self.reads, self.raised = 1, 0, 0

    def read(self, n=-1):
        f = self.script.get(self.attempt)
        if f is not None and self.reads >= f[0]:
            self.attempt += 1
            self.reads = 0
            self.raised += 1
            raise OSError('fault script: read failed')
        self.reads += 1
        return super().read(n)


class FaultyFile(io.FileIO):
    """a REAL file (fileno() works, as for upload-objects) whose reads fail by the same kind of script"""

    def __init__(self, path, script):
        super().__init__(path, 'rb')
        self.script = {a: (p, k) for a, p, k in script}
        self.attempt, self.reads, self.raised = 1, 0, 0

    def read(self, n=-1):
        f = self.script.get(self.attempt)
        if f is not None and self.reads >= f[0]:
            self.attempt += 1
            self.reads = 0
            self.raised += 1
            raise OSError('fault script: read failed')
        self.reads += 1
        return super().read(n)

    def readinto(self, b):
        data = self.read(len(b))
        b[:len(data)] = data
        return len(data)


class FaultyWriter(io.BytesIO):
    def __init__(self, script):
        super().__init__()
        self.script = {a: (p, k) for a, p, k in script}
        self.attempt, self.writes, self.raised = 1, 0, 0

    def write(self, b):
        f = self.script.get(self.attempt)
        if f is not None and self.writes >= f[0]:
            self.attempt += 1
            self.writes = 0
            self.raised += 1
            raise OSError('fault script: write failed')
        self.writes += 1
        return super().write(b)


async def call(fn, *a):
    r = fn(*a)
    if inspect.isawaitable(r):
        r = await r
    return r


def run_local(op, script, payload, root, persistent=False, realfile=False, limit=10 ** 12, chunk=None):
    """-> outcome dict"""
    from replicat.backends.local import Local
    be = Local(str(root))
    name = 'data/aa/bb/cc-dd'
    old = b'old complete object'
    be.upload(name, old)
    out = {'ok': True, 'exact': True, 'calls': 0, 'runaway': False, 'nopartial': True, 'etype': '~'}
    with vclock.virtual() as clk:
        try:
            if op == 'upload_stream':
                # positions 0..2: the read of that stream chunk fails; position 3 ("after the last chunk"): the atomic replace fails
                rs = [(a, p_, k_) for a, p_, k_ in script if p_ < 3]
                renames = {a for a, p_, k_ in script if p_ >= 3}
                if realfile:
                    # the source is a real file behind the rate-limit wrapper with a finite limit, as in `replicat upload --rate-limit`
                    sp = Path(str(root) + '.source-file.bin')        # next to, not inside, the backend directory
                    sp.write_bytes(payload)
                    src = FaultyFile(str(sp), [])       # the faults of this variant are on the destination side (see flaky_copy)
                else:
                    src = FaultyReader(payload, rs if not persistent else [(a, 0, 'io') for a in range(1, 200)])
                real = Path.replace
                state = {'calls': 0}

                def flaky(self, target):
                    # the attempt number = failures so far + 1
                    att = src.raised + state['calls'] + 1
                    if att in renames:
                        state['calls'] += 1
                        raise OSError('fault script: replace failed')
                    return real(self, target)
                Path.replace = flaky
                import shutil
                real_copy = shutil.copyfileobj
                copies = {'n': 0}

                def flaky_copy(fsrc, fdst, length=0):
                    # realfile variant: the DESTINATION side fails (EIO while writing the temporary) after a few pieces of the attempt
                    copies['n'] += 1
                    want = {a: p_ for a, p_, k_ in script}.get(copies['n']) if realfile else None
                    if want is None:
                        return real_copy(fsrc, fdst, length)
                    for _ in range(want + 1):
                        fdst.write(fsrc.read(length))
                    state['calls'] += 1
                    raise OSError('fault script: write to the temporary failed')
                if realfile:
                    shutil.copyfileobj = flaky_copy
                try:
                    be.upload_stream(name, wrap_reader(src, limit), len(payload), chunk or CHUNK)
                finally:
                    Path.replace = real
                    shutil.copyfileobj = real_copy
                    if realfile:
                        src.close()
                out['calls'] = src.raised + state['calls'] + 1
            elif op == 'download_stream':
                be.upload(name, payload)
                tgt = FaultyWriter(script if not persistent else [(a, 0, 'io') for a in range(1, 200)])
                be.download_stream(name, wrap_writer(tgt), CHUNK)
                out['exact'] = tgt.getvalue() == payload
                out['calls'] = tgt.raised + 1
            elif op == 'upload':
                real = Path.replace
                n = {'left': len(script) if not persistent else 10 ** 6, 'calls': 0}

                def flaky(self, target):
                    n['calls'] += 1
                    if n['left'] > 0:
                        n['left'] -= 1
                        raise OSError('fault script: replace failed')
                    return real(self, target)
                Path.replace = flaky
                try:
                    be.upload(name, payload)
                finally:
                    Path.replace = real
                    out['calls'] = n['calls']
        except OSError as e:
            out['ok'] = False
            out['etype'] = type(e).__name__
    if op in ('upload', 'upload_stream'):
        now = be.download(name)
        out['exact'] = now == payload
        out['nopartial'] = now in (payload, old)
        visible = list(be.list_files(''))
        out['nopartial'] = out['nopartial'] and visible == [name]
    out['slept'] = round(clk.total, 3)
    return out


def _plan(script, is_target, payload, persistent, kinds_status=(503, 500, 429), listing=False, phase=0):
    state = {'n': 0}
    LAST = 3        # the model's last position (NChunks): the fault comes after the WHOLE body was consumed, remainder chunk included
    whole = lambda pos: 10 ** 9 if pos >= LAST else pos     # noqa: E731
    sc = {a: (p, k) for a, p, k in script}

    def plan(request):
        if not is_target(request):
            return None
        state['n'] += 1
        f = sc.get(state['n'])
        if persistent:
            f = persistent
        if f is None:
            return None
        pos, kind = f
        if kind == 'io':
            if listing and pos > 0:
                return ('cutreal', min(pos, 3))      # the real listing page, broken after pos/4 of its body
            if request.method in ('GET',):
                return ('cut', min(pos * CHUNK, len(payload)), payload)
            return ('drop', whole(pos))
        if kind == 'status':
            # which status a fault shows up as rotates with the attempt AND the case, so that every code also occurs as the first fault
            return ('status', kinds_status[(state['n'] + phase) % len(kinds_status)] if not persistent else 503, whole(pos) if request.method not in ('GET', 'HEAD') else 0)
        if kind == 'html':
            return ('html', 400)
        if kind == 'auth':
            return ('auth',)
        return None
    plan.state = state
    return plan


def run_remote(adapter, op, script, payload, persistent=None, bulk=0):
    name = 'data/aa/bb/cc-dd'
    old = b'old complete object'
    if adapter == 's3':
        fake = fakes3.FakeS3()
        be = fakes3.client(fake)
        fake.objects[name] = old if op.startswith('upload') else payload
        is_data = {'upload': lambda r: r.method == 'PUT', 'upload_stream': lambda r: r.method == 'PUT', 'download': lambda r: r.method == 'GET' and b'list-type' not in r.url.raw_path,
                   'download_stream': lambda r: r.method == 'GET' and b'list-type' not in r.url.raw_path, 'exists': lambda r: r.method == 'HEAD',
                   'delete': lambda r: r.method == 'DELETE', 'list': lambda r: b'list-type' in r.url.raw_path}[op]
        visible = lambda: dict(fake.objects)  # noqa: E731
    else:
        fake = fakeb2.FakeB2()
        be = fakeb2.client(fake)
        fake.versions[name] = [('upload', old if op.startswith('upload') else payload)]
        is_data = {'upload': lambda r: r.url.host == 'up.fake-b2.test', 'upload_stream': lambda r: r.url.host == 'up.fake-b2.test',
                   'download': lambda r: r.url.host == 'dl.fake-b2.test' and r.method == 'GET', 'download_stream': lambda r: r.url.host == 'dl.fake-b2.test' and r.method == 'GET',
                   'exists': lambda r: r.method == 'HEAD', 'delete': lambda r: r.url.path.endswith('b2_hide_file'), 'list': lambda r: r.url.path.endswith('b2_list_file_names')}[op]
        visible = fake.visible
    expected_listing = [name]
    if bulk:
        # a listing whose pages are hundreds of kilobytes: many objects with long names
        more = {'data/%02x/%s-%06d' % (i % 256, 'n' * 260, i): b'x' for i in range(bulk)}
        if adapter == 's3':
            fake.objects.update(more)
        else:
            for k, v in more.items():
                fake.versions[k] = [('upload', v)]
        expected_listing = sorted([name] + list(more))
    fake.plan = _plan(script, is_data, payload, persistent, listing=(op == 'list'), phase=zlib.crc32(repr((op, script)).encode()))
    fake.drop_phase = zlib.crc32(repr((adapter, op, script, persistent)).encode())      # which transport error a drop shows up as: rotates with the case
    fake.op_limit = 200
    out = {'ok': True, 'exact': True, 'calls': 0, 'runaway': False, 'nopartial': True, 'etype': '~'}

    async def go():
        res = None
        try:
            if op == 'upload':
                await be.upload(name, payload)
            elif op == 'upload_stream':
                await be.upload_stream(name, wrap_reader(io.BytesIO(payload)), len(payload), CHUNK)
            elif op == 'download':
                res = await be.download(name)
            elif op == 'download_stream':
                tgt = io.BytesIO()
                await be.download_stream(name, wrap_writer(tgt), CHUNK)
                res = tgt.getvalue()
            elif op == 'exists':
                res = await be.exists(name)
            elif op == 'delete':
                await be.delete(name)
            elif op == 'list':
                res = [x async for x in be.list_files('data/')]
        finally:
            await be.close()
        return res
    with vclock.virtual() as clk:
        try:
            res = asyncio.run(go())
            if op in ('download', 'download_stream'):
                out['exact'] = res == payload
            elif op == 'exists':
                out['exact'] = res is True
            elif op == 'list':
                out['exact'] = sorted(res) == expected_listing        # every name exactly once
            elif op == 'delete':
                out['exact'] = name not in visible()
            else:
                out['exact'] = visible().get(name) == payload
        except (fakes3.Runaway, fakeb2.Runaway, RecursionError):
            out.update(ok=False, runaway=True, etype='Runaway')
        except Exception as e:  # noqa: BLE001
            out.update(ok=False, etype=type(e).__name__)
    if op.startswith('upload'):
        out['nopartial'] = visible().get(name) in (payload, old)
    out['calls'] = fake.plan.state['n']
    out['slept'] = round(clk.total, 3)
    return out
