"""Line-level schedule fuzzing for the threads replicat starts itself.

The sync hooks give control at the documented linearisation points; a race whose window lies BETWEEN two hooks (two critical sections that
should have been one) needs a thread to be preempted at an arbitrary line. While the context manager is active, every thread started
afterwards runs the chosen functions of replicat/repository.py under a trace function that yields the processor for a moment at randomly
chosen lines (seeded). Nothing but timing changes: every interleaving produced this way is one the operating system could produce.
"""
import contextlib
import random
import sys
import threading
import time

SNAPSHOT = ('_worker', '_chunk_done', '_chunk_producer', '_stream_files', 'snapshot')
RESTORE = ('_write_chunk_ref', '_download_chunk', '_write_file_part', 'restore')
LOADERS = ('_load_snapshots', '_download_snapshot', '_download_snapshot_threadsafe', '_get_cached', '_store_cached', '_delete_cached', '_decrypt_snapshot_body')


@contextlib.contextmanager
def fuzz(seed, functions, q=0.15, pause=0.0002):
    stats = {'yields': 0}
    lock = threading.Lock()
    master = random.Random(seed)

    def tracer(frame, event, arg):
        code = frame.f_code
        if code.co_name in functions and code.co_filename.endswith('replicat/repository.py'):
            with lock:
                rng = random.Random(master.random())

            def local(frame, event, arg):
                if event == 'line' and rng.random() < q:
                    stats['yields'] += 1
                    time.sleep(pause)
                return local
            return local
        return None
    old = threading.gettrace() if hasattr(threading, 'gettrace') else None
    threading.settrace(tracer)
    try:
        yield stats
    finally:
        threading.settrace(old)
