"""Line-level schedule fuzzing for the threads replicat starts itself.

The sync hooks give control at the documented linearisation points; a race whose window lies BETWEEN two hooks (two critical sections that
should have been one) needs a thread to be preempted at an arbitrary line. While the context manager is active, every thread started
afterwards runs the chosen functions of replicat/repository.py under a trace function that yields the processor for a moment at randomly
chosen lines (seeded). Nothing but timing changes: every interleaving produced this way is one the operating system could produce.
"""
import contextlib
import random
import sys
import threading
import time

SNAPSHOT = ('_worker', '_chunk_done', '_chunk_producer', '_stream_files', 'snapshot')
RESTORE = ('_write_chunk_ref', '_download_chunk', '_write_file_part', 'restore')
LOADERS = ('_load_snapshots', '_download_snapshot', '_download_snapshot_threadsafe', '_get_cached', '_store_cached', '_delete_cached', '_decrypt_snapshot_body')


@contextlib.contextmanager
def fuzz(seed, functions, q=0.15, pause=0.0002):
    stats = {'yields': 0}
    lock = threading.Lock()
    master = random.Random(seed)

    def tracer(frame, event, arg):
        code = frame.f_code
        if code.co_name in functions and code.co_filename.endswith('replicat/repository.py'):
            with lock:
                rng = random.Random(master.random())

            def local(frame, event, arg):
                if event == 'line' and rng.random() < q:
                    stats['yields'] += 1
                    time.sleep(pause)
                return local
            return local
        return None
    old = threading.gettrace() if hasattr(threading, 'gettrace') else None
    threading.settrace(tracer)
    try:
        yield stats
    finally:
        threading.settrace(old)


# ---------------------------------------------------------------- delay injection at call sites
def call_sites(roots, names, with_callee=False):
    """(function name, bytecode offset right after a call) for the functions `names` nested in the code objects `roots`:
    the places where a thread has just looked at - or changed - something another thread may touch"""
    import dis
    out = []

    def walk(code):
        if code.co_name in names:
            ins = list(dis.get_instructions(code))
            for i, x in enumerate(ins[:-1]):
                if x.opname.startswith('CALL'):
                    # the attribute that was called, if the call is of the form obj.attr(...) without arguments that are calls themselves
                    callee = next((y.argval for y in reversed(ins[max(0, i - 6):i]) if y.opname in ('LOAD_ATTR', 'LOAD_METHOD')), None)
                    out.append((code.co_name, ins[i + 1].offset) if not with_callee else (code.co_name, ins[i + 1].offset, callee))
        for c in code.co_consts:
            if hasattr(c, 'co_code'):
                walk(c)
    for r in roots:
        walk(r)
    return sorted(set(out))


@contextlib.contextmanager
def delay_sites(sites, delay, files=('replicat/repository.py',)):
    """every time a thread started inside the block reaches one of `sites` it sleeps `delay` seconds. A window between two calls that should
    have been one critical section (or one atomic test) is held open every time it is passed - unlike random preemption, which has to hit
    the one iteration that matters."""
    want = {}
    for site in sites:
        want.setdefault(site[0], {})[site[1]] = site[2] if len(site) > 2 else delay        # (function, offset[, its own delay])
    stats = {'delays': 0}

    def tracer(frame, event, arg):
        code = frame.f_code
        offs = want.get(code.co_name)
        if offs and code.co_filename.endswith(files):
            frame.f_trace_opcodes = True

            def local(frame, event, arg):
                if event == 'opcode' and frame.f_lasti in offs:
                    stats['delays'] += 1
                    time.sleep(offs[frame.f_lasti])
                return local
            return local
        return None
    old = threading.gettrace() if hasattr(threading, 'gettrace') else None
    threading.settrace(tracer)
    try:
        yield stats
    finally:
        threading.settrace(old)
