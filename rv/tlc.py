"""TLC plumbing: run model checks / simulations / batch trace validation and parse results.

Exit-code policy (DESIGN 3.3): a TLC crash or an unexpected failure of a *design* model is a
machinery failure (MachineryError -> exit 2), never a VIOLATION.
"""
import json
import os
import re
import shutil
import subprocess
import tempfile
import time

SPEC_DIR = os.path.join(os.path.dirname(os.path.dirname(os.path.abspath(__file__))), 'spec')
JAR_CP = '/opt/veriftools/tla/tla2tools.jar:/opt/veriftools/tla/CommunityModules-deps.jar'


class MachineryError(Exception):
    pass


class TLCResult:
    def __init__(self, out, rc, wall):
        self.out = out
        self.rc = rc
        self.wall = wall
        m = re.findall(r'(\d+) states generated, (\d+) distinct states found', out)
        self.generated = int(m[-1][0]) if m else 0
        self.distinct = int(m[-1][1]) if m else 0
        m = re.search(r'depth of the complete state graph search is (\d+)', out)
        self.depth = int(m.group(1)) if m else 0
        self.violated = None
        m = re.search(r'Error: Invariant (\S+) is violated', out)
        if m:
            self.violated = m.group(1)
        m = re.search(r'Error: Action property (\S+) is violated', out)
        if m:
            self.violated = m.group(1)
        m = re.search(r'Error: Temporal property (\S+) was violated', out)
        if m:
            self.violated = self.violated or m.group(1)
        if 'Temporal properties were violated' in out:
            self.violated = self.violated or 'temporal'
        if 'Deadlock reached' in out:
            self.violated = self.violated or 'deadlock'
        self.completed = 'Model checking completed. No error has been found.' in out
        self.errors = re.findall(r'^Error: .*$', out, re.M)

    @property
    def ok(self):
        return self.completed and self.violated is None

    def prints(self, tag):
        """Tuples printed with PrintT(<<tag, ...>>) -> list of lists of python values. TLC wraps long values over
        several lines and several workers interleave their output: values are recovered by bracket matching."""
        res = []
        out = self.out
        for m in re.finditer(r'^<<\s*"%s",' % re.escape(tag), out, re.M):
            i, depth, j = m.start(), 0, m.start()
            instr = False
            while j < len(out):
                c = out[j]
                if instr:
                    if c == '\\':
                        j += 1
                    elif c == '"':
                        instr = False
                elif c == '"':
                    instr = True
                elif out.startswith('<<', j):
                    depth += 1
                    j += 1
                elif out.startswith('>>', j):
                    depth -= 1
                    j += 1
                    if depth == 0:
                        break
                j += 1
            try:
                res.append(parse_value(out[i:j + 1])[1:])
            except ValueError:
                continue
        return res

    def coverage(self):
        """action name -> (distinct, total) from -coverage output"""
        cov = {}
        for m in re.finditer(r'^<(\w+) line \d+, col \d+ to line \d+, col \d+ of module (\w+)>: (\d+):(\d+)', self.out, re.M):
            name = m.group(1)
            d, t = int(m.group(3)), int(m.group(4))
            od, ot = cov.get(name, (0, 0))
            cov[name] = (od + d, ot + t)
        return cov


def _tlc_cmd(module, cfg, workers, extra, jvm):
    cmd = ['java', '-XX:+UseParallelGC', '-Xss64m'] + list(jvm) + ['-cp', JAR_CP, 'tlc2.TLC']
    cmd += ['-workers', str(workers), '-noGenerateSpecTE', '-checkpoint', '0', '-config', cfg]      # no checkpoints: long validations (> 30 min) would otherwise try one, which the depth-first queue cannot do
    cmd += list(extra) + [module]
    return cmd


def run_tlc(module, cfg, *, workers=8, extra=(), timeout=1800, env=None, jvm=(), spec_dir=SPEC_DIR, cfg_text=None):
    """Run TLC on spec_dir/module.tla with spec_dir/cfg (or a generated cfg when cfg_text is given)."""
    meta = tempfile.mkdtemp(prefix='rvtlc_')
    try:
        if cfg_text is not None:
            cfg_path = os.path.join(meta, cfg)
            with open(cfg_path, 'w') as f:
                f.write(cfg_text)
        else:
            cfg_path = os.path.join(spec_dir, cfg)
        cmd = _tlc_cmd(module, cfg_path, workers, ['-metadir', os.path.join(meta, 'states')] + list(extra), jvm)
        e = dict(os.environ)
        if env:
            e.update({k: str(v) for k, v in env.items()})
        t0 = time.time()
        try:
            p = subprocess.run(cmd, cwd=spec_dir, env=e, stdout=subprocess.PIPE, stderr=subprocess.STDOUT,
                               timeout=timeout, text=True, errors='replace')
        except subprocess.TimeoutExpired as ex:
            raise MachineryError('TLC timeout after %ss on %s/%s' % (timeout, module, cfg)) from ex
        res = TLCResult(p.stdout, p.returncode, time.time() - t0)
        return res
    finally:
        shutil.rmtree(meta, ignore_errors=True)


def check_design(module, cfg, *, expect_violation=None, **kw):
    """Model-check a design config. expect_violation=None: must pass. Otherwise the named
    invariant/property must be reported violated (spec mutant). Raises MachineryError otherwise."""
    res = run_tlc(module, cfg, **kw)
    if expect_violation is None:
        if not res.ok:
            raise MachineryError('design model %s/%s failed: %s\n%s' % (module, cfg, res.violated or res.errors, res.out[-3000:]))
    else:
        if res.violated is None:
            raise MachineryError('spec mutant %s/%s was expected to violate %s but passed (vacuous invariant?)\n%s'
                                 % (module, cfg, expect_violation, res.out[-1500:]))
        if expect_violation is not True and res.violated != expect_violation:
            raise MachineryError('spec mutant %s/%s violated %s, expected %s' % (module, cfg, res.violated, expect_violation))
    return res


def validate_traces(module, cfg, traces, *, consts=None, timeout=1800, tag='V', cfg_text=None, spec_dir=SPEC_DIR, extra_env=None):
    """Batch trace validation. `traces` is a list (JSON-serialisable); the trace spec reads it through
    IOEnv.TRACE_FILE, explores one linear behaviour per trace and prints <<tag, tid, index, clause>>.
    Returns (verdicts: {tid(1-based): (index, clause)}, TLCResult)."""
    d = tempfile.mkdtemp(prefix='rvtr_')
    try:
        path = os.path.join(d, 'traces.json')
        with open(path, 'w') as f:
            json.dump(_nonull(traces), f)
        env = {'TRACE_FILE': path}
        if extra_env:
            env.update(extra_env)
        res = run_tlc(module, cfg, workers=1, timeout=timeout, env=env, cfg_text=cfg_text, spec_dir=spec_dir,
                      jvm=('-Dtlc2.tool.queue.IStateQueue=StateDeque',))
        if not res.completed:
            raise MachineryError('trace validation %s/%s did not complete: %s\n%s' % (module, cfg, res.errors, res.out[-3000:]))
        verdicts = {}
        for v in res.prints(tag):
            verdicts[v[0]] = (v[1], v[2]) if len(v) == 3 else (v[1], v[2], v[3:])
        missing = [i for i in range(1, len(traces) + 1) if i not in verdicts]
        if missing:
            raise MachineryError('trace validation %s/%s: no verdict for traces %s\n%s' % (module, cfg, missing[:10], res.out[-3000:]))
        return verdicts, res
    finally:
        shutil.rmtree(d, ignore_errors=True)


def validate_loop(module, cfg, traces, on_reject, *, rounds=25, timeout=3000):
    """validate; for every rejected trace call on_reject(trace, index, clause) -> True when the rejection is a recorded
    known finding: the event gets a waiver for that clause and the trace is validated again, so that the rest of it is
    examined. Returns the final verdict map {trace number (0-based): (index, clause, drift)} and the TLC state count."""
    pending = list(range(len(traces)))
    final, states = {}, 0
    for _ in range(rounds):
        if not pending:
            break
        verdicts, res = validate_traces(module, cfg, [traces[i] for i in pending], timeout=timeout)
        states += res.distinct
        again = []
        for k, i in enumerate(pending):
            v = verdicts[k + 1]
            idx, clause = v[0], v[1]
            drift = v[2][0] if len(v) > 2 and v[2] else 'ok'
            final[i] = (idx, clause, drift)
            if clause != 'ok':
                evs = traces[i]['events']
                known = on_reject(traces[i], idx, clause)
                if known and 0 < idx <= len(evs):
                    evs[idx - 1]['waive'] = sorted(set(evs[idx - 1].get('waive', [])) | {clause})
                    again.append(i)
        pending = again
    return final, states


def _nonull(x):
    """TLC's JsonDeserialize rejects null: the sentinel "~" stands for None"""
    if x is None:
        return '~'
    if isinstance(x, dict):
        return {k: _nonull(v) for k, v in x.items()}
    if isinstance(x, (list, tuple)):
        return [_nonull(v) for v in x]
    return x


def simulate(module, cfg, *, num, depth, seed, timeout=600, spec_dir=SPEC_DIR, cfg_text=None, extra=()):
    """tlc -simulate; returns list of behaviours, each a list of (action_name, state_dict)."""
    d = tempfile.mkdtemp(prefix='rvsim_')
    try:
        res = run_tlc(module, cfg, workers=1, timeout=timeout, spec_dir=spec_dir, cfg_text=cfg_text,
                      extra=['-simulate', 'file=%s/tr,num=%d' % (d, num), '-depth', str(depth), '-seed', str(seed)] + list(extra))
        behaviours = []
        for fn in sorted(os.listdir(d)):
            if not fn.startswith('tr'):
                continue
            behaviours.append(parse_sim_file(open(os.path.join(d, fn)).read()))
        return behaviours, res
    finally:
        shutil.rmtree(d, ignore_errors=True)


def parse_sim_file(text):
    """one behaviour file of `tlc -simulate file=...` -> [(action name, state dict)]"""
    steps = []
    rx = re.compile(r'^\\\* <(\w+)[^\n]*>\nSTATE_\d+ ==[ \t]*\n(.*?)(?=\n[ \t]*\n|\Z)', re.M | re.S)
    for m in rx.finditer(text):
        steps.append((m.group(1), parse_state(m.group(2))))
    return steps


def parse_state(decl):
    """'/\\ a = 1\n/\\ b = <<>>' -> dict"""
    state = {}
    items = re.split(r'^\s*/\\ ', decl, flags=re.M)
    for it in items:
        it = it.strip()
        if not it:
            continue
        m = re.match(r'(\w+) = (.*)$', it, re.S)
        if not m:
            continue
        state[m.group(1)] = parse_value(m.group(2).strip())
    return state


# ---------------------------------------------------------------- TLA+ value parser
class _P:
    def __init__(self, s):
        self.s = s
        self.i = 0

    def ws(self):
        while self.i < len(self.s) and self.s[self.i] in ' \n\t\r':
            self.i += 1

    def peek(self, k=1):
        return self.s[self.i:self.i + k]

    def eat(self, t):
        self.ws()
        if self.s.startswith(t, self.i):
            self.i += len(t)
            return True
        return False

    def expect(self, t):
        if not self.eat(t):
            raise ValueError('expected %r at %d in %r' % (t, self.i, self.s[max(0, self.i - 30):self.i + 30]))

    def value(self):
        self.ws()
        c = self.peek()
        if self.eat('<<'):
            items = []
            if self.eat('>>'):
                return items
            while True:
                items.append(self.value())
                if self.eat('>>'):
                    return items
                self.expect(',')
        if self.eat('{'):
            items = []
            if self.eat('}'):
                return TSet(items)
            while True:
                items.append(self.value())
                if self.eat('}'):
                    return TSet(items)
                self.expect(',')
        if self.eat('['):
            rec = {}
            # record [a |-> v, ...] ; functions printed as (k :> v @@ ...)
            while True:
                self.ws()
                m = re.compile(r'\w+').match(self.s, self.i)
                key = m.group(0)
                self.i = m.end()
                self.expect('|->')
                rec[key] = self.value()
                if self.eat(']'):
                    return rec
                self.expect(',')
        if self.eat('('):
            fn = {}
            while True:
                k = self.value()
                self.expect(':>')
                v = self.value()
                fn[_hashable(k)] = v
                if self.eat(')'):
                    return fn
                self.expect('@@')
        if c == '"':
            j = self.i + 1
            out = []
            while self.s[j] != '"':
                if self.s[j] == '\\':
                    j += 1
                out.append(self.s[j])
                j += 1
            self.i = j + 1
            return ''.join(out)
        m = re.compile(r'-?\d+').match(self.s, self.i)
        if m:
            self.i = m.end()
            v = int(m.group(0))
            # interval a..b
            self.ws()
            if self.s.startswith('..', self.i):
                self.i += 2
                hi = self.value()
                return TSet(list(range(v, hi + 1)))
            return v
        m = re.compile(r'\w+').match(self.s, self.i)
        if m:
            self.i = m.end()
            w = m.group(0)
            if w == 'TRUE':
                return True
            if w == 'FALSE':
                return False
            return w  # model value
        raise ValueError('cannot parse at %d: %r' % (self.i, self.s[self.i:self.i + 40]))


class TSet(list):
    """a TLA+ set, kept as a list in print order"""
    def __repr__(self):
        return 'TSet(%s)' % list.__repr__(self)


def _hashable(v):
    if isinstance(v, list):
        return tuple(_hashable(x) for x in v)
    if isinstance(v, dict):
        return tuple(sorted((k, _hashable(x)) for k, x in v.items()))
    return v


def parse_value(s):
    p = _P(s)
    v = p.value()
    p.ws()
    if p.i != len(p.s):
        raise ValueError('trailing text in TLA value: %r' % p.s[p.i:p.i + 40])
    return v
