"""Three ways to run the real chunker, with control over what lies behind the buffer in memory.

adapter : replicat.utils.adapters.gclmulchunker (the python state machine + the shipped extension)
ext     : the shipped extension's _gclmulchunker.next_cut driven by the harness's own copy of the wrapper loop,
          the buffer being a memoryview slice of a larger bytearray (trailing bytes chosen by the harness)
lib     : build/libgcl.so rebuilt from /repo/src/adapters.cpp (pybind11 stub), same loop, through ctypes
"""
import ctypes
import os
import subprocess
import sys

from . import harness  # noqa: F401  (puts /repo on sys.path)

ROOT = os.path.dirname(os.path.dirname(os.path.abspath(__file__)))
_lib = None


def lib():
    global _lib
    if _lib is None:
        subprocess.run([os.path.join(ROOT, 'bin', 'build-chunker')], check=True, capture_output=True)
        _lib = ctypes.CDLL(os.path.join(ROOT, 'build', 'libgcl.so'))
        _lib.rv_new.restype = ctypes.c_void_p
        _lib.rv_new.argtypes = [ctypes.c_size_t, ctypes.c_size_t, ctypes.c_char_p]
        _lib.rv_free.argtypes = [ctypes.c_void_p]
        _lib.rv_next_cut.restype = ctypes.c_size_t
        _lib.rv_next_cut.argtypes = [ctypes.c_void_p, ctypes.c_void_p, ctypes.c_size_t, ctypes.c_int]
    return _lib


def adapter(pieces, key, mn, mx, chunker=None):
    from replicat.utils import adapters
    c = chunker or adapters.gclmulchunker(min_length=mn, max_length=mx)
    return [bytes(x) for x in c(iter(pieces), params=key)]


def _trail(env, n=64):
    if env == 'zero':
        return bytes(n)
    if env == 'ff':
        return b'\xff' * n
    import hashlib
    return (hashlib.sha256(env.encode()).digest() * 4)[:n]


class _Shim:
    """stands in for the extension module inside replicat.utils.adapters: the ADAPTER'S OWN loop runs unchanged, only
    next_cut is redirected so that the bytes behind the buffer are chosen by the harness"""

    def __init__(self, make):
        self._gclmulchunker = make


class _ExtProxy:
    def __init__(self, env, mn, mx, key):
        import _replicat_adapters
        self.c = _replicat_adapters._gclmulchunker(mn, mx, key)
        self.env = env
        self.min_length, self.max_length = mn, mx

    def next_cut(self, buf, final=False):
        big = bytearray(bytes(buf) + _trail(self.env))
        return self.c.next_cut(memoryview(big)[:len(buf)], final)


class _LibProxy:
    def __init__(self, env, mn, mx, key):
        self.L = lib()
        self.h = self.L.rv_new(mn, mx, bytes(key))
        if not self.h:
            raise ValueError('constructor rejected the parameters')
        self.env = env
        self.min_length, self.max_length = mn, mx

    def next_cut(self, buf, final=False):
        raw = bytes(buf)
        big = ctypes.create_string_buffer(raw + _trail(self.env), len(raw) + 64)
        return self.L.rv_next_cut(self.h, ctypes.addressof(big), len(raw), 1 if final else 0)

    def __del__(self):
        try:
            self.L.rv_free(self.h)
        except Exception:  # noqa: BLE001
            pass


def _via_adapter(proxy_cls, pieces, key, mn, mx, env):
    from replicat.utils import adapters
    real = adapters._replicat_adapters
    adapters._replicat_adapters = _Shim(lambda a, b, k: proxy_cls(env, a, b, k))
    try:
        return [bytes(x) for x in adapters.gclmulchunker(min_length=mn, max_length=mx)(iter(pieces), params=key)]
    finally:
        adapters._replicat_adapters = real


def ext(pieces, key, mn, mx, env='zero'):
    return _via_adapter(_ExtProxy, pieces, key, mn, mx, env)


def libcuts(pieces, key, mn, mx, env='zero'):
    return _via_adapter(_LibProxy, pieces, key, mn, mx, env)


def valid_params(mn, mx):
    """1 <= min <= max and an aligned length exists in [min, max]"""
    return 1 <= mn <= mx and ((mn + 3) // 4) * 4 <= mx
