"""Schedule controller for the sync hooks of replicat/_verif.py.

record : every sync(label, **fields) is appended to `events` with the thread name (order = order of arrival under one lock)
park   : threads arriving at a label in `park` block until release(key, label); key = key_of(label, fields)
perturb: otherwise a seeded random tiny sleep at hooks that are reached from worker threads (schedule perturbation)
"""
import random
import threading
import time

THREAD_LABELS = ('put', 'write.begin', 'write', 'remove.before', 'remove', 'pop', 'utime')      # reached from executor / loader / writer threads


class Controller:
    def __init__(self, park=(), key_of=None, perturb_seed=None, piece=None, scale=0.002):
        self.events = []
        self.lock = threading.Lock()
        self.cv = threading.Condition()
        self.park = set(park)
        self.key_of = key_of or (lambda label, f: f.get('digest'))
        self.parked = {}        # (key, label) -> True
        self.allowed = set()    # (key, label) released
        self.free_run = False
        self.rng = random.Random(perturb_seed) if perturb_seed is not None else None
        self.piece = piece
        self.scale = scale

    # ---- hook interface
    def override(self, name, default):
        if name == 'snapshot.piece_size' and self.piece:
            return self.piece
        return default

    def sync(self, label, fields):
        with self.lock:
            self.events.append(dict(fields, label=label, thread=threading.current_thread().name))
        if label in self.park and not self.free_run and self.key_of(label, fields) is not None:
            k = (self.key_of(label, fields), label)
            with self.cv:
                self.parked[k] = True
                self.cv.notify_all()
                while k not in self.allowed and not self.free_run:
                    self.cv.wait(0.05)
                self.parked.pop(k, None)
                self.allowed.discard(k)
                self.cv.notify_all()
        elif self.rng is not None and label in THREAD_LABELS:
            with self.lock:
                x = self.rng.random()
            if x < 0.6:
                time.sleep(x * self.scale)

    def log(self, label, **fields):
        with self.lock:
            self.events.append(dict(fields, label=label, thread=threading.current_thread().name))

    # ---- scheduler interface
    def wait_parked(self, key, label, timeout=2.0):
        end = time.time() + timeout
        with self.cv:
            while (key, label) not in self.parked:
                left = end - time.time()
                if left <= 0:
                    return False
                self.cv.wait(min(left, 0.05))
        return True

    def wait_all_parked(self, keys, label, timeout=2.0):
        return all(self.wait_parked(k, label, timeout) for k in keys)

    def release(self, key, label):
        with self.cv:
            self.allowed.add((key, label))
            self.cv.notify_all()

    def release_all(self):
        with self.cv:
            self.free_run = True
            self.cv.notify_all()
