"""An in-process S3-compatible service behind httpx.MockTransport.

Path-style addressing (/bucket/key), PUT / GET / HEAD / DELETE object, ListObjectsV2 with a configurable page size and
opaque continuation tokens (containing + / =). Every request is verified with the independent SigV4 implementation and
answered 403 SignatureDoesNotMatch when it does not verify, like the real service. All requests are captured."""
import base64
import hashlib
from xml.sax.saxutils import escape

import httpx


class Runaway(BaseException):
    """one adapter call has sent an absurd number of requests: the harness aborts it"""

from . import sigv4


class FakeS3:
    def __init__(self, bucket='bkt', key_id='AKIDEXAMPLE', secret='wJalrXUtnFEMI/K7MDENG+bPxRfiCYEXAMPLEKEY', page_size=1000, faults=None, verify_signatures=True):
        self.bucket, self.key_id, self.secret, self.page_size = bucket, key_id, secret, page_size
        self.verify_signatures = verify_signatures
        self.objects = {}
        self.requests = []      # captured: dict(method, target, headers, body, verdict)
        self.faults = faults    # callable(request_record) -> None | httpx.Response | Exception
        self.calls = 0

    def transport(self):
        return httpx.MockTransport(self.handle)

    async def handle(self, request):
        act = self.plan(request) if getattr(self, 'plan', None) else None
        if act is not None and act[0] == 'cutreal':
            body = await request.aread()
            return await cut_real(self, request, self._respond(request, body), act[1])
        if act is not None:
            return await apply_fault(self, request, act)
        body = await request.aread() if hasattr(request, 'aread') else request.read()
        return self._respond(request, body)

    def _respond(self, request, body):
        self.calls += 1
        self.op_calls = getattr(self, 'op_calls', 0) + 1
        if self.op_calls > getattr(self, 'op_limit', 64):
            raise Runaway()
        target = request.url.raw_path
        headers = {k.lower(): v for k, v in request.headers.items()}
        verdict = sigv4.verify(request.method, target, headers, body, lambda kid: self.secret if kid == self.key_id else None)
        rec = {'method': request.method, 'target': target, 'headers': headers, 'body': body, 'verdict': verdict, 'n': self.calls}
        self.requests.append(rec)
        if self.faults is not None:
            r = self.faults(rec)
            if isinstance(r, Exception):
                raise r
            if r is not None:
                return r
        if 'content-length' in headers and int(headers['content-length']) != len(body):
            # what the real HTTP stack does: the CLIENT side (h11) refuses to finish a message whose body does not have the declared length
            raise httpx.LocalProtocolError('Too %s data for declared Content-Length' % ('little' if len(body) < int(headers['content-length']) else 'much'), request=request)
        if self.verify_signatures and (not verdict['sigOk'] or verdict.get('declaredHash') not in (verdict.get('bodyHash'), 'UNSIGNED-PAYLOAD')):
            return httpx.Response(403, content=b'<Error><Code>SignatureDoesNotMatch</Code></Error>')
        path, _, query = target.partition(b'?')
        path = sigv4.pct_decode(path).decode('utf-8', 'surrogateescape')
        q = {sigv4.pct_decode(k).decode(): sigv4.pct_decode(v).decode('utf-8', 'surrogateescape') for k, v in sigv4.split_query(query)}
        if not path.startswith('/' + self.bucket):
            return httpx.Response(404, content=b'<Error><Code>NoSuchBucket</Code></Error>')
        key = path[len(self.bucket) + 2:]
        if key == '' and request.method == 'GET':
            return self._list(q)
        if request.method == 'PUT':
            self.objects[key] = body
            return httpx.Response(200, headers={'etag': '"%s"' % hashlib.md5(body).hexdigest()})
        if request.method in ('GET', 'HEAD'):
            if key not in self.objects:
                return httpx.Response(404, content=b'' if request.method == 'HEAD' else b'<Error><Code>NoSuchKey</Code></Error>')
            data = self.objects[key]
            if request.method == 'HEAD':
                return httpx.Response(200, headers={'content-length': str(len(data))})
            return httpx.Response(200, content=data)
        if request.method == 'DELETE':
            self.objects.pop(key, None)
            return httpx.Response(204)
        return httpx.Response(405)

    def _list(self, q):
        prefix = q.get('prefix', '')
        keys = sorted(k for k in self.objects if k.startswith(prefix))
        start = 0
        tok = q.get('continuation-token')
        if tok is not None:
            try:
                after = base64.b64decode(tok.encode()).decode('utf-8', 'surrogateescape')[3:]
            except Exception:  # noqa: BLE001
                return httpx.Response(400, content=b'<Error><Code>InvalidArgument</Code></Error>')
            start = len([k for k in keys if k <= after])
        page = keys[start:start + self.page_size]
        truncated = start + self.page_size < len(keys)
        parts = ['<?xml version="1.0" encoding="UTF-8"?><ListBucketResult xmlns="http://s3.amazonaws.com/doc/2006-03-01/">',
                 '<Name>%s</Name><Prefix>%s</Prefix><KeyCount>%d</KeyCount><MaxKeys>%d</MaxKeys><IsTruncated>%s</IsTruncated>' % (
                     self.bucket, escape(prefix), len(page), self.page_size, 'true' if truncated else 'false')]
        for k in page:
            parts.append('<Contents><Key>%s</Key><Size>%d</Size></Contents>' % (escape(k), len(self.objects[k])))
        if truncated:
            # opaque token with + / = in it
            token = base64.b64encode(('\xff\xfe>' + page[-1]).encode('utf-8', 'surrogateescape')).decode()
            self.issued_tokens = getattr(self, 'issued_tokens', []) + [token]
            parts.append('<NextContinuationToken>%s</NextContinuationToken>' % escape(token))
        parts.append('</ListBucketResult>')
        return httpx.Response(200, content=''.join(parts).encode('utf-8', 'surrogateescape'))


def client(fake, **kw):
    """the real adapter, built by its own constructor, talking to the fake"""
    from replicat.backends import s3c
    c = s3c.S3Compatible(fake.bucket, key_id=kw.pop('key_id', fake.key_id), access_key=kw.pop('access_key', fake.secret),
                         region=kw.pop('region', 'eu-test-1'), host=kw.pop('host', 's3.example.test:9000'), scheme=kw.pop('scheme', 'http'))
    c._client = httpx.AsyncClient(transport=fake.transport(), timeout=None, event_hooks={'response': [s3c._raise_for_status_hook]})
    return c


# how a connection that fails in mid-transfer shows up in httpx: reset (ReadError), clean close by the peer before the message was
# complete (RemoteProtocolError), write side (WriteError), timeouts. All are httpx.TransportError; the fault scripts rotate through them.
DROP_KINDS = ('ReadError', 'RemoteProtocolError', 'WriteError', 'ReadTimeout')
CUT_KINDS = ('ReadError', 'RemoteProtocolError', 'ReadTimeout')


def transport_error(fake, kinds, what, request):
    fake.drops = getattr(fake, 'drops', 0) + 1
    cls = getattr(httpx, kinds[(fake.drops + getattr(fake, 'drop_phase', 0)) % len(kinds)])
    return cls('%s (%s, fault script)' % (what, cls.__name__), request=request)


async def cut_real(fake, request, resp, quarter):
    """the GENUINE response of the service, cut after quarter/4 of its body by a transport error (a listing page that breaks in mid-body)"""
    full = resp.content
    upto = max(1, len(full) * quarter // 4)

    async def body():
        # delivered in pieces like a socket would, so that a consumer that parses incrementally has seen complete parts before the break
        for i in range(0, upto, 65536):
            yield full[i:min(i + 65536, upto)]
        raise transport_error(fake, CUT_KINDS, 'response cut', request)
    return httpx.Response(resp.status_code, headers={'content-length': str(len(full)), 'content-type': resp.headers.get('content-type', 'application/xml')}, content=body())


async def apply_fault(fake, request, act):
    """act: ('status', code, after_chunks) | ('drop', after_chunks) | ('cut', after_bytes, full_bytes) | ('auth',)"""
    fake.calls += 1
    fake.op_calls = getattr(fake, 'op_calls', 0) + 1
    if fake.op_calls > getattr(fake, 'op_limit', 64):
        raise Runaway()
    kind = act[0]
    if kind in ('status', 'drop'):
        n = 0
        want = act[2] if kind == 'status' else act[1]
        if want > 0:
            async for _ in request.stream:
                n += 1
                if n >= want:
                    break
        if kind == 'drop':
            raise transport_error(fake, DROP_KINDS, 'connection dropped', request)
        headers = {'retry-after': '1'} if act[1] == 429 else {}
        return httpx.Response(act[1], headers=headers, json={'status': act[1], 'code': 'fault', 'message': 'fault script'})
    if kind == 'html':
        # an error page that is not the service's JSON / XML (a proxy in front of the API)
        await request.aread()
        return httpx.Response(act[1], headers={'content-type': 'text/html'}, content=b'<html><body><h1>%d Bad Request</h1></body></html>' % act[1])
    if kind == 'auth':
        await request.aread()
        return httpx.Response(401, json={'status': 401, 'code': 'expired_auth_token', 'message': 'fault script'})
    if kind == 'cut':
        await request.aread()
        full, upto = act[2], act[1]

        async def body():
            if upto > 0:
                yield full[:upto]
            raise transport_error(fake, CUT_KINDS, 'response cut', request)
        return httpx.Response(200, headers={'content-length': str(len(full))}, content=body())
    raise ValueError(act)
