"""C09 - snapshot and restore do not depend on thread or I/O scheduling.

design : SnapshotPipe.tla and RestorePipe.tla - every interleaving of the producer thread, the worker coroutines, the loader and writer threads
         and the backend completions in small scope; InFlightBound, CommitComplete, NoSpuriousError, SlotsRestored, FinalisedOnceAfterWrites,
         termination under weak fairness; mutants doneOnly, firstCompleted, TestInsideLock = FALSE (the restore completion race).
L2     : schedules of RestorePipe.tla (TLC simulation of the completion steps, and the adversarial "all loaders of a file arrive together" schedule
         that TLC finds as the counterexample of the racy variant) are forced on the real restore through the sync hooks: loader threads park at
         remove.before / remove / pop and are released in the order of the behaviour.
L3     : free-running snapshot and restore executions with seeded perturbation at the hooks and jittered backend completion orders, plain and
         coroutine backends, N = 1..3, with and without an injected backend failure; the event log is validated by PipeTrace.tla and the result is
         compared with the sequential run.
"""
import hashlib
import os
import random
import threading

import contextlib

from .. import linefuzz, harness, membackend, repodrv, sched, tlc

LEVEL = 'model_checking'
BLOCK = 64


def install(ctl):
    from replicat import _verif
    _verif.controller = ctl


def uninstall():
    from replicat import _verif
    _verif.controller = None


class LoggingGate:
    """MemBackend gate that reports transfer starts to the controller and adds jitter / failures"""

    def __init__(self, ctl, rng=None, fail_at=None, scale=0.002):
        self.ctl, self.rng, self.fail_at, self.n, self.scale = ctl, rng, fail_at, 0, scale
        self.lock = threading.Lock()

    def __call__(self, be, op, name):
        import time
        if op not in membackend.TRANSFERS:
            return
        with self.lock:
            self.n += 1
            n = self.n
            x = self.rng.random() if self.rng else 0
        if x > 0.3:
            time.sleep(x * self.scale)
        if self.fail_at is not None and n == self.fail_at:
            raise OSError('injected backend failure at transfer #%d (%s)' % (n, op))


def instrument(be, ctl):
    """log call+ / call- around every transfer of this backend object (inflight as the environment sees it)"""
    enter, leave = be._enter, be._leave

    def e(op):
        if op in membackend.TRANSFERS:
            ctl.log('call+', op=op)
        return enter(op)

    def l_(op):
        r = leave(op)
        if op in membackend.TRANSFERS:
            ctl.log('call-', op=op)
        return r
    be._enter, be._leave = e, l_
    return be


def events_for_trace(ctl, kind, file_ids=None, counters=True):
    out = []
    for e in ctl.events:
        lab = e['label']
        if lab in ('call+', 'call-'):
            out.append({'a': lab})
        elif lab in ('put', 'get', 'chunk_done') and kind == 'snapshot':
            out.append({'a': lab, 'k': e['counter']})
        elif lab == 'commit' and kind == 'snapshot':
            out.append({'a': 'commit', 'chunks': e['chunks']})
        elif lab in ('write.begin', 'write', 'utime') and kind == 'restore':
            f = file_ids.get(e['path'])
            if f:
                out.append({'a': lab, 'f': f})
    return out


def observed(fn, box, conc):
    """run the command; whatever its outcome, look at the slot queue from inside the same event loop once the transfers still
    in flight have drained (slots of a failed command must come back too)"""
    import asyncio

    async def go(repo):
        try:
            return await fn(repo)
        finally:
            for _ in range(200):
                if repo._slots.qsize() >= conc:
                    break
                await asyncio.sleep(0.005)
            box['free'] = repo._slots.qsize()
    return go


def run_watchdog(fn, timeout=30):
    box = {}

    def body():
        harness._NOCAP.on = True
        try:
            box['o'] = fn()
        except BaseException as ex:  # noqa: BLE001
            box['o'] = harness.Outcome(False, exc=ex)
    th = threading.Thread(target=body, daemon=True)
    th.start()
    th.join(timeout)
    return box.get('o'), th.is_alive()


def make_world(rng, graph_enc, flavour, conc, nfiles, d, big=False):
    store = membackend.Store()
    w = harness.World(store=store, concurrent=conc, flavour=flavour)
    w.init('a', b'pw', harness.settings(encrypted=graph_enc, min_length=BLOCK, max_length=BLOCK))
    files = {}
    shared = [rng.randbytes(BLOCK) for _ in range(3)]
    for i in range(nfiles):
        blocks = [rng.choice(shared) if rng.random() < 0.3 else rng.randbytes(BLOCK) for _ in range(rng.randrange(1, 6))]
        files['f%d.bin' % i] = b''.join(blocks) + rng.randbytes(rng.choice([0, 0, 5]))
    if big:
        # many distinct chunks: the bounded queue (10 * concurrency) fills up while the workers are busy
        files['big.bin'] = rng.randbytes(BLOCK * rng.randrange(30, 60))
    harness.write_tree(d / 'src', files)
    return w, store, files


def snapshot_run(run, rng, seed, flavour, conc, fail, quick, big=False, fuzz=False, sites=None, nfiles=None, trace_files=('replicat/repository.py',)):
    with harness.scratch() as d:
        w, store, files = make_world(rng, bool(seed % 2), flavour, conc, nfiles or rng.randrange(1, 5), d, big=big)
        # sequential reference: concurrency 1, no perturbation
        ref_world = harness.World(store=membackend.Store(dict(store.objs)), concurrent=1, flavour=flavour)
        ref_world.users = w.users
        piece = rng.choice([None, 48, 100])
        # the reference reads the files in the same pieces (chunks in the tail zone may legitimately depend on the piece size, C10)
        install(sched.Controller(piece=piece))
        try:
            ref = ref_world.snapshot('a', [d / 'src'])
        finally:
            uninstall()
        ctl = sched.Controller(perturb_seed=seed, piece=piece)
        slots = {}
        be = instrument(w.backend(gate=LoggingGate(ctl, random.Random(seed), fail_at=fail)), ctl)
        install(ctl)
        try:
            with (linefuzz.delay_sites(sites, 0.02, trace_files) if sites else linefuzz.fuzz(seed, linefuzz.SNAPSHOT) if fuzz else contextlib.nullcontext()):
                o, hung = run_watchdog(lambda: w.command('a', observed(lambda r: r.snapshot(paths=[d / 'src']), slots, conc), backend=be, concurrent=conc), 30 if sites else 12)
        finally:
            uninstall()
        ok = bool(o and o.ok)
        same = False
        free = slots.get('free', o.repo._slots.qsize() if (o is not None and getattr(o, 'repo', None) is not None) else -1)   # the command may fail before it starts (unlock)
        if ok:
            def norm(v):
                return (sorted(v.chunks), sorted((f['path'], f['digest'], tuple(sorted((c['counter'], tuple(c['range'])) for c in f['chunks']))) for f in v.data['files']))
            same = norm(o.value) == norm(ref.value)
            if same:
                # ... and the sequential meaning itself: what was recorded restores (unperturbed, one loader) to the source tree
                tgt = d / 'back'
                tgt.mkdir()
                back = w.command('a', lambda r: r.restore(path=tgt), concurrent=1)
                same = bool(back.ok) and check_restored(tgt, files, d)
        evs = events_for_trace(ctl, 'snapshot')
        evs.append({'a': 'end', 'ok': ok, 'fault': fail is not None, 'same': bool(same), 'free': free if not hung else -1, 'hung': bool(hung),
                    'etype': o.etype if o else 'hung'})
        run.case(('snapshot', seed, flavour, conc, fail, big, fuzz, tuple(sites or ())), nontrivial=len(evs) > 8)
        return {'kind': 'snapshot', 'n': conc, 'nfiles': 1, 'expected': [0], 'events': evs, 'seed': seed, 'flavour': flavour, 'fail': fail}


def restore_prepare(rng, enc, flavour, conc, nfiles, d):
    w, store, files = make_world(rng, enc, flavour, conc, nfiles, d)
    o = w.snapshot('a', [d / 'src'])
    assert o.ok, o.exc
    paths = sorted(f['path'] for f in o.value.data['files'])
    file_ids = {p: i + 1 for i, p in enumerate(paths)}
    expected = [0] * len(paths)
    for f in o.value.data['files']:
        expected[file_ids[f['path']] - 1] = len(f['chunks'])
    return w, store, files, file_ids, expected, o.value


def check_restored(tgt, files, d):
    got = {k: v[0] for k, v in harness.read_tree(tgt).items()}
    want = {os.path.relpath(os.path.join(str(d / 'src'), k), '/'): v for k, v in files.items()}
    return got == want


def restore_run(run, rng, seed, flavour, conc, fail, quick, fuzz=False, sites=None, trace_files=('replicat/repository.py',), nfiles=None):
    with harness.scratch() as d:
        w, store, files, file_ids, expected, snap = restore_prepare(rng, bool(seed % 2), flavour, conc, nfiles or rng.randrange(1, 5), d)
        ctl = sched.Controller(perturb_seed=seed)
        slots = {}
        be = instrument(w.backend(gate=LoggingGate(ctl, random.Random(seed), fail_at=fail)), ctl)
        tgt = d / 'tgt'
        tgt.mkdir()
        install(ctl)
        try:
            with (linefuzz.delay_sites(sites, 0.02, trace_files) if sites else linefuzz.fuzz(seed, linefuzz.RESTORE) if fuzz else contextlib.nullcontext()):
                o, hung = run_watchdog(lambda: w.command('a', observed(lambda r: r.restore(path=tgt), slots, conc), backend=be, concurrent=conc), 30)
        finally:
            uninstall()
        ok = bool(o and o.ok)
        evs = events_for_trace(ctl, 'restore', file_ids)
        free = slots.get('free', o.repo._slots.qsize() if (o is not None and getattr(o, 'repo', None) is not None) else -1) if not hung else -1
        evs.append({'a': 'end', 'ok': ok, 'fault': fail is not None, 'same': bool(ok and check_restored(tgt, files, d)), 'free': free, 'hung': bool(hung),
                    'etype': o.etype if o else 'hung'})
        run.case(('restore', seed, flavour, conc, fail, fuzz, tuple(sites or ())), nontrivial=len(evs) > 8)
        return {'kind': 'restore', 'n': conc, 'nfiles': len(expected), 'expected': expected, 'events': evs, 'seed': seed, 'flavour': flavour, 'fail': fail}


def scripted_restore(run, rng, seed, steps, nchunks, two_files, label):
    """force an order of the completion steps Remove / Test / Pop of RestorePipe.tla on the real restore"""
    with harness.scratch() as d:
        store = membackend.Store()
        w = harness.World(store=store, concurrent=nchunks, flavour='plain')
        w.init('a', b'pw', harness.settings(encrypted=False, min_length=BLOCK, max_length=BLOCK))
        blocks = [hashlib.sha256(b'c09-%d-%d' % (seed, i)).digest() * 2 for i in range(nchunks)]
        files = {'big.bin': b''.join(blocks)}
        if two_files:
            files['a-small.bin'] = blocks[0]
        harness.write_tree(d / 'src', files)
        o = w.snapshot('a', [d / 'src'])
        assert o.ok, o.exc
        paths = sorted(f['path'] for f in o.value.data['files'])
        file_ids = {p: i + 1 for i, p in enumerate(paths)}
        expected = [0] * len(paths)
        for f in o.value.data['files']:
            expected[file_ids[f['path']] - 1] = len(f['chunks'])
        big = [p for p in paths if p.endswith('big.bin')][0]
        hasher = hashlib.blake2b
        dig = {hashlib.blake2b(b, digest_size=64).digest(): i + 1 for i, b in enumerate(blocks)}
        ctl = sched.Controller(park=('remove.before', 'remove', 'pop'), key_of=lambda label, f: dig.get(f.get('digest')) if f.get('path') == big else None)
        be = instrument(w.backend(), ctl)
        tgt = d / 'tgt'
        tgt.mkdir()
        install(ctl)
        box = {}
        th = threading.Thread(target=lambda: box.update(r=run_watchdog(lambda: w.command('a', lambda r: r.restore(path=tgt), backend=be, concurrent=nchunks), 20)), daemon=True)
        th.start()
        unreplayable = False
        try:
            for act, dnum, fpath in steps:
                key = dnum
                if act == 'Remove':
                    if not ctl.wait_parked(key, 'remove.before'):
                        unreplayable = True
                        break
                    ctl.release(key, 'remove.before')
                    if not ctl.wait_parked(key, 'remove'):
                        unreplayable = True
                        break
                elif act == 'Test':
                    ctl.release(key, 'remove')
                    ctl.wait_parked(key, 'pop', timeout=0.15)      # only parks if it saw the empty set
                elif act == 'Pop':
                    ctl.release(key, 'pop')
        finally:
            ctl.release_all()
            th.join(30)
            uninstall()
        o2, hung = box.get('r', (None, True))
        ok = bool(o2 and o2.ok)
        evs = events_for_trace(ctl, 'restore', file_ids)
        evs.append({'a': 'end', 'ok': ok, 'fault': False, 'same': bool(ok and check_restored(tgt, files, d)), 'free': o2.repo._slots.qsize() if o2 is not None and hasattr(o2, 'repo') else -1,
                    'hung': bool(hung), 'etype': o2.etype if o2 else 'hung'})
        run.case(('scripted', label, seed, tuple(steps)))
        if unreplayable:
            run.add(unreplayable=1)
        return {'kind': 'restore', 'n': nchunks, 'nfiles': len(expected), 'expected': expected, 'events': evs, 'seed': seed, 'flavour': 'plain', 'fail': None,
                'script': [list(map(str, s)) for s in steps], 'label': label}


def model_schedules(run, quick, seed):
    """completion-step orders from TLC: simulation of the intended model + the counterexample of the racy one"""
    base = open(os.path.join(tlc.SPEC_DIR, 'MC_RestorePipe.cfg')).read().replace('SPECIFICATION FairSpec', 'SPECIFICATION Spec').replace('PROPERTY Terminates\n', '')
    out = []
    for sel, nchunks in (('one-file', 2), ('one-file', 3), ('two-files', 2)):
        text = base.replace('RefsSel = "two-files"', 'RefsSel = "%s"' % sel).replace('Chunks = {1, 2, 3}', 'Chunks = {%s}' % ', '.join(str(i + 1) for i in range(nchunks)))
        text = text.replace('N = 1', 'N = 2').replace('MaxFaults = 1', 'MaxFaults = 0').replace('Files = {1, 2}', 'Files = {1, 2}' if sel == 'two-files' else 'Files = {1}')
        behs, res = tlc.simulate('RestorePipe', 'sim.cfg', num=4 if quick else 40, depth=60, seed=seed, cfg_text=text)
        for b in behs:
            steps, prev = [], None
            for act, st in b[1:]:
                if prev is not None:
                    for dnum in st['pc'] if isinstance(st['pc'], dict) else range(1, len(st['pc']) + 1):
                        pass
                prev = st
            # actions are labelled; recover (action, chunk) from the pc difference
            prev = b[0][1]
            for act, st in b[1:]:
                pcs, ppcs = st['pc'], prev['pc']
                changed = [i for i in range(len(pcs)) if pcs[i] != ppcs[i]]
                if act in ('Remove', 'Test', 'Pop') and changed:
                    dnum = changed[0] + 1
                    f = prev['cur'][changed[0]] if act != 'Remove' else st['cur'][changed[0]] if st['cur'][changed[0]] else prev['cur'][changed[0]]
                    steps.append((act, dnum, f))
                prev = st
            out.append((sel, nchunks, steps))
    return out


def main(run):
    quick = run.tier == 'quick'
    rng = random.Random(run.seed + 9)
    states = trans = 0
    sp = open(os.path.join(tlc.SPEC_DIR, 'MC_SnapshotPipe.cfg')).read()
    rp = open(os.path.join(tlc.SPEC_DIR, 'MC_RestorePipe.cfg')).read()
    for text in ([sp] if quick else [sp, sp.replace('K = 4', 'K = 5').replace('N = 2', 'N = 3')]):
        res = tlc.check_design('SnapshotPipe', 'mc.cfg', cfg_text=text, timeout=3000)
        states += res.distinct
        trans += res.generated
    for text in ([rp] if quick else [rp, rp.replace('N = 1', 'N = 2').replace('RefsSel = "two-files"', 'RefsSel = "one-file"')]):
        res = tlc.check_design('RestorePipe', 'mc.cfg', cfg_text=text, timeout=3000)
        states += res.distinct
        trans += res.generated
    caught = []
    for m in ('doneOnly', 'firstCompleted', 'threadDone'):
        tlc.check_design('SnapshotPipe', 'mut.cfg', cfg_text=sp.replace('Mutant = "none"', 'Mutant = "%s"' % m), expect_violation='CommitComplete')
        caught.append(m)
    tlc.check_design('SnapshotPipe', 'mut.cfg', cfg_text=sp.replace('Mutant = "none"', 'Mutant = "abortUnseenWhenFull"').replace('N = 2', 'N = 1').replace('QCap = 2', 'QCap = 1'), expect_violation=True)
    caught.append('abortUnseenWhenFull')
    tlc.check_design('RestorePipe', 'mut.cfg', cfg_text=rp.replace('TestInsideLock = TRUE', 'TestInsideLock = FALSE'), expect_violation='NoSpuriousError')
    caught.append('testOutsideLock')
    # the per-file write locks of restore (one action per critical section); the release split over two critical sections must fail both ways
    fl = open(os.path.join(tlc.SPEC_DIR, 'MC_FileLocks.cfg')).read()
    res = tlc.check_design('FileLocks', 'MC_FileLocks.cfg')
    states += res.distinct
    trans += res.generated
    only = lambda inv: '\n'.join(l for l in fl.replace('Mutant = "none"', 'Mutant = "splitRelease"').splitlines()      # noqa: E731
                                 if not l.startswith(('INVARIANT', 'PROPERTY'))) + '\nINVARIANT %s\n' % inv
    tlc.check_design('FileLocks', 'mut1.cfg', cfg_text=only('NoKeyError'), expect_violation='NoKeyError')
    tlc.check_design('FileLocks', 'mut2.cfg', cfg_text=only('WritersExclusive'), expect_violation='WritersExclusive')
    caught.append('splitRelease')
    run.add(states=states, transitions=trans, spec_mutants_caught=caught)
    traces = []
    # L2: adversarial schedule = TLC's counterexample shape: every loader of a file removes, then all test, then all pop
    for nchunks in (2, 3):
        for two in (False, True):
            steps = [('Remove', i + 1, None) for i in range(nchunks)] + [('Test', i + 1, None) for i in range(nchunks)] + [('Pop', i + 1, None) for i in range(nchunks)]
            for rep in range(1 if quick else 3):
                traces.append(scripted_restore(run, rng, run.seed * 10 + rep, steps, nchunks, two, 'all-remove-then-test'))
    # L2: TLC-simulated completion orders of the intended model
    for sel, nchunks, steps in model_schedules(run, quick, run.seed + 90):
        steps2 = [(a, dn, None) for a, dn, f in steps if f in (1, 0)] if sel == 'one-file' else [(a, dn, None) for a, dn, f in steps if f == 1]
        traces.append(scripted_restore(run, rng, run.seed * 10 + 5, steps2, nchunks, sel == 'two-files', 'tlc-' + sel))
    # L3: free-running perturbed executions
    n = 10 if quick else 150
    for i in range(n):
        flavour = 'plain' if i % 2 else 'async'
        conc = [1, 2, 3][i % 3]
        fail = None if i % 4 else rng.randrange(1, 6)
        traces.append(snapshot_run(run, rng, run.seed * 1000 + i, flavour, conc, fail, quick))
        traces.append(restore_run(run, rng, run.seed * 1000 + 500 + i, flavour, conc, fail, quick))
    # a backend failure while the producer's queue is full (transfer #1 is the config download of unlock: fail later ones)
    for i in range(4 if quick else 40):
        conc = [1, 2][i % 2]
        traces.append(snapshot_run(run, rng, run.seed * 1000 + 800 + i, 'plain' if i % 4 < 2 else 'async', conc, 2 + rng.randrange(0, 3 * conc), quick, big=True))
    # line-level schedule fuzzing (rv/linefuzz.py): the threads of the command are preempted at random lines of the pipeline functions, which
    # reaches races whose window lies between two hooks
    for i in range(30 if quick else 400):
        traces.append(restore_run(run, rng, run.seed * 1000 + 600 + i, 'plain' if i % 2 else 'async', [2, 3][i % 2], None, quick, fuzz=True))
    for i in range(8 if quick else 100):
        traces.append(snapshot_run(run, rng, run.seed * 1000 + 700 + i, 'plain' if i % 2 else 'async', [2, 3][i % 2], None, quick, big=bool(i % 4 == 0), fuzz=True))
    # delay injection at call sites: every place where a pipeline function has just called something (looked at the queue, a future, a
    # lock table ...) is held open for 20 ms whenever it is passed, a few sites per run; the quick tier samples the sites, the thorough tier
    # goes through all of them
    from replicat.repository import Repository as _R
    ssites = linefuzz.call_sites([_R.snapshot.__code__], ('_worker', '_chunk_producer', '_chunk_done'))
    rsites = linefuzz.call_sites([_R.restore.__code__], ('_write_chunk_ref', '_download_chunk'))
    rng.shuffle(ssites)
    rng.shuffle(rsites)
    per = 6
    groups_s = [ssites[i:i + per] for i in range(0, len(ssites), per)]
    groups_r = [rsites[i:i + per] for i in range(0, len(rsites), per)]
    for i, g in enumerate(groups_s if not quick else groups_s[:14]):
        for conc in (1, 2):          # some windows only matter with a single worker (nobody else drains the queue), others need two
            traces.append(snapshot_run(run, rng, run.seed * 1000 + 1100 + 2 * i + conc, 'plain' if i % 2 else 'async', conc, None, quick, sites=g))
    for i, g in enumerate(groups_r if not quick else groups_r[:8]):
        traces.append(restore_run(run, rng, run.seed * 1000 + 1300 + i, 'plain' if i % 2 else 'async', [2, 3][i % 2], None, quick, sites=g))
    # a SLOW producer (3 ms at every call site of its loop): the workers wait on an empty queue while the producer is still running,
    # and every window in the worker loop is held open (60 ms) in turn - the end-of-stream handshake between the two
    slow = [(n, o, 0.001) for n, o in ssites if n == '_chunk_producer']      # slow everywhere, a little
    # the handshake itself (the worker's looks at the queue and at the producer's state), several times: the last put has to fall into the window
    by_callee = {}
    for n, o, c in linefuzz.call_sites([_R.snapshot.__code__], ('_worker',), with_callee=True):
        if c in ('empty', 'done', 'get_nowait', 'qsize', 'full', 'is_set'):
            by_callee.setdefault(c, []).append((n, o, 0.15))
    k = 0
    for c, ss in sorted(by_callee.items()):         # one kind of look at a time (e.g. every `queue.empty()` of the worker loop)
        for rep in range(5 if quick else 40):
            k += 1
            traces.append(snapshot_run(run, rng, run.seed * 1000 + 1700 + k, 'plain', 1 if rep % 4 != 3 else 2, None, quick, sites=slow + ss, nfiles=1 + rep % 2))
    # the connection slots are an asyncio.Queue that worker THREADS hand slots back to: the loop thread is held inside Queue.get / put
    # (between its look at the queue and the registration of the waiter) while a thread returns a slot
    import asyncio.queues as _aq
    qsites = linefuzz.call_sites([_aq.Queue.get.__code__, _aq.Queue.put.__code__], ('get', 'put'), with_callee=True)
    qs = [(n, o, 0.03) for n, o, c in qsites if c in ('empty', 'full')]      # after the look at the queue, before the waiter is registered
    for rep in range(4 if quick else 24):
        traces.append(restore_run(run, rng, run.seed * 1000 + 1900 + rep, 'plain', 1 if rep % 4 != 3 else 2, None, quick, sites=qs, trace_files=('asyncio/queues.py',), nfiles=2))
    run.add(call_sites_snapshot=len(ssites), call_sites_restore=len(rsites), call_sites_delayed=per * ((len(groups_s) if not quick else min(14, len(groups_s))) + (len(groups_r) if not quick else min(8, len(groups_r)))))
    # ... and without a failure: the producer is blocked on the full queue in the middle of a file while chunks of that file complete
    for i in range(3 if quick else 30):
        traces.append(snapshot_run(run, rng, run.seed * 1000 + 900 + i, 'plain' if i % 2 else 'async', [1, 2, 3][i % 3], None, quick, big=True))

    def on_reject(t, idx, clause):
        e = t['events'][idx - 1]
        cls = 'any'
        if clause.startswith('C:'):
            run.note_drift(clause)      # conformance with the design model, not part of the property: reported, never an alarm
            return True
        fresh = run.violation(clause, cls, {'kind': t['kind'], 'n': t['n'], 'seed': t['seed'], 'flavour': t['flavour'], 'fail': t['fail'], 'index': idx, 'event': e,
                                            'script': t.get('script'), 'label': t.get('label'), 'tail': t['events'][max(0, idx - 8):idx - 1]})
        return not fresh
    final, nstates = tlc.validate_loop('PipeTrace', 'Trace_Repo.cfg', traces, on_reject)
    run.add(traces_validated_against_impl=len(traces), pipeline_events=sum(len(t['events']) for t in traces))
    t = traces[-1]
    run.sample({'kind': t['kind'], 'n': t['n'], 'flavour': t['flavour'], 'events': t['events'][:12]})
    run.coverage['rule'] = ('a case is one real snapshot or restore execution: a scripted completion order forced through the sync hooks (adversarial and '
                            'TLC-simulated), or a free-running execution under seeded perturbation x backend flavour x concurrency x optional injected failure')
    run.assumptions += ['schedules are controlled at hook / backend-call granularity', 'a run that does not finish within the watchdog time is a hang']


def replay(run, path):
    main(run)
