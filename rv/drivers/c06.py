"""C06 - access rights follow key relationships.

design : Repo.tla Confined (action property), refusal of DelBegin for unreadable snapshots (mutant noRefuse),
         Safety under the other users' deletes and cleans (mutants keepReadableOnly, noSnapTag)
L2     : TLC behaviours incl. refused deletes replayed on the real commands
L3     : histories by all users of every key graph; every command's effect and every listing / restore output is
         checked by RepoTrace against what the key relations allow; the unlock matrix (every password x key file)
"""
from . import repo_common as rc

LEVEL = 'model_checking'
CLAUSES = ['P:ConfinedFamily', 'P:ConfinedCommand', 'P:ConfinedNamed', 'P:ConfinedReadable', 'P:DeleteRefused',
           'P:ListSnapshotsSet', 'P:ListSnapshotsDetail', 'P:ListFilesSet', 'P:RestoreSelect', 'P:RestoreNothingElse',
           'P:UnlockOwnPasswordOnly', 'P:Safety', 'P:ListOk', 'P:PrivatePartOnlyForItsOwner']


def every_user_looks(sess, desc):
    for u in sess.users:
        sess.ls(u)
        sess.lf(u)
        sess.restore(u)
        listed = sess.listed()
        # try to delete a snapshot the user cannot read, and one of each other user
        others = [s for s in listed if s not in sess.readable(u)]
        if others:
            o = sess.delete(u, others[:1])
            desc.append('delete-foreign(%s,%s)->%s' % (u, others[:1], o.etype))
        o = sess.clean(u)
        desc.append('clean(%s)->%s' % (u, o.etype))
    sess.unlock_matrix()
    for u in sess.users:
        for s in sess.readable(u)[:2]:
            sess.restore(u, '^%s$' % sess.snapname[s])


def main(run):
    quick = run.tier == 'quick'
    rc.design(run, ['mixed', 'shared'] if quick else ['plain', 'same', 'shared', 'indep', 'mixed', 'chain'],
              mutants=['noRefuse', 'keepReadableOnly'] if quick else ['noRefuse', 'keepReadableOnly', 'noSnapTag', 'noChunkTag'],
              coverage=not quick)
    rc.l2(run, ['mixed', 'shared', 'indep'] if quick else ['same', 'shared', 'indep', 'mixed'],
          num=10 if quick else 120, depth=45, seed=run.seed + 3,
          kinds=('not-refused', 'missing-chunk', 'missing-snapshot'))
    n = 3 if quick else 30
    traces = rc.histories(run, ['same', 'shared', 'clone', 'indep', 'mixed'], range(run.seed * 100, run.seed * 100 + n), 12 if quick else 25,
                          post=every_user_looks)
    # chains of add-key: shared-of-shared, clone of an independent key
    traces += rc.histories(run, ['chain'], range(run.seed * 100 + 60, run.seed * 100 + 60 + (2 if quick else 20)), 14 if quick else 30, post=every_user_looks)
    rc.validate(run, traces, CLAUSES, label='c06.histories')
    run.coverage['rule'] = ('a case is one command history on a key graph (same / shared / clone / independent / mixed) followed by every '
                            'user listing, restoring, deleting foreign snapshots, cleaning, and the unlock matrix; or one replayed TLC behaviour')
    run.assumptions += ['projection by rv/refcodec.py decides who can decrypt what', 'identical-data aliasing is judged by C07 NoAlias']


def replay(run, path):
    main(run)
