"""C06 - access rights follow key relationships.

design : Repo.tla Confined (action property), refusal of DelBegin for unreadable snapshots (mutant noRefuse),
         Safety under the other users' deletes and cleans (mutants keepReadableOnly, noSnapTag)
L2     : TLC behaviours incl. refused deletes replayed on the real commands
L3     : histories by all users of every key graph; every command's effect and every listing / restore output is
         checked by RepoTrace against what the key relations allow; the unlock matrix (every password x key file)
"""
from . import repo_common as rc

LEVEL = 'model_checking'
CLAUSES = ['P:ConfinedFamily', 'P:ConfinedCommand', 'P:ConfinedNamed', 'P:ConfinedReadable', 'P:DeleteRefused',
           'P:ListSnapshotsSet', 'P:ListSnapshotsDetail', 'P:ListFilesSet', 'P:RestoreSelect', 'P:RestoreNothingElse',
           'P:UnlockOwnPasswordOnly', 'P:Safety', 'P:ListOk', 'P:PrivatePartOnlyForItsOwner']


def every_user_looks(sess, desc):
    for u in sess.users:
        sess.ls(u)
        sess.lf(u)
        sess.restore(u)
        listed = sess.listed()
        # try to delete a snapshot the user cannot read, and one of each other user
        others = [s for s in listed if s not in sess.readable(u)]
        if others:
            o = sess.delete(u, others[:1])
            desc.append('delete-foreign(%s,%s)->%s' % (u, others[:1], o.etype))
        o = sess.clean(u)
        desc.append('clean(%s)->%s' % (u, o.etype))
    sess.unlock_matrix()
    for u in sess.users:
        for s in sess.readable(u)[:2]:
            sess.restore(u, '^%s$' % sess.snapname[s])


def command_line_flow(run, seed):
    """the keys are made by the COMMAND LINE (python -m replicat init / add-key --shared / --clone / independent, every command its own
    process, passwords in multi-line files, keys written with -o), snapshots are taken through it too; the resulting key files and the
    directory of the local backend are then judged like any other session: what add-key was asked for is what the key is, every key opens
    with the full content of its password file and with nothing else, access follows the key relations."""
    import os
    import random
    import subprocess
    import sys
    from pathlib import Path
    from .. import harness, membackend, refcodec, repodrv
    from . import c03_local
    r = random.Random(seed)
    repo = os.environ.get('RV_REPO', '/repo')
    env = dict(os.environ, PYTHONPATH=repo + os.pathsep + '/verif', PYTHONDONTWRITEBYTECODE='1', HOME='/nonexistent-home')
    env.pop('REPLICAT_VERIF', None)
    with harness.scratch() as d:
        root = d / 'localrepo'
        root.mkdir()
        pwf, keyf, pws = {}, {}, {}
        for u in 'abcde':
            # a pass phrase of two lines (the whole content of the file is the password), for c the clone of a: the same file
            pws[u] = pws['a'] if u == 'c' else b'' if u == 'e' else b'first line %s\nsecond line %s\n' % (r.randbytes(3).hex().encode(), u.encode())      # e: an EMPTY pass phrase
            pwf[u] = d / ('password-%s.txt' % u)
            pwf[u].write_bytes(pws[u])
            keyf[u] = d / ('key-%s.json' % u)
        fast = ['--encryption.kdf.n', '4']

        def cli(*args, hashseed=0):
            p = subprocess.run([sys.executable, '-m', 'replicat'] + [str(a) for a in args], env=dict(env, PYTHONHASHSEED=str(hashseed)), capture_output=True, timeout=300, cwd=str(d))
            return p
        common = ['-r', 'local:%s' % root, '--ignore-config', '--no-cache', '-q']
        steps = [cli('init', *common, '-P', pwf['a'], '-o', keyf['a'], *fast, '--chunking.min-length', '64', '--chunking.max-length', '256'),
                 cli('add-key', *common, '-K', keyf['a'], '-P', pwf['a'], '-N', pwf['b'], '--shared', '-o', keyf['b'], *fast),
                 cli('add-key', *common, '-K', keyf['a'], '-P', pwf['a'], '--clone', '-o', keyf['c'], *fast),
                 cli('add-key', *common, '-N', pwf['d'], '-o', keyf['d'], *fast),
                 cli('add-key', *common, '-K', keyf['a'], '-P', pwf['a'], '-N', pwf['e'], '--shared', '-o', keyf['e'], *fast)]
        for i, p in enumerate(steps):
            if p.returncode != 0:
                from .. import tlc
                raise tlc.MachineryError('command-line setup step %d failed: %s' % (i, p.stderr[-400:].decode(errors='replace')))
        objs, _ = c03_local.observe(str(root))
        st = membackend.Store(objs)
        try:
            s = repodrv.Session('cli', d / 'sess', seed=seed, store=st, prebuilt={u: (pws[u], keyf[u].read_bytes()) for u in 'abcde'})
        except refcodec.FormatError as ex:
            # a key file written by the command line does not open with the full content of its own password file (independent codec)
            run.violation('P:UnlockOwnPasswordOnly', 'any', {'setup': 'command line', 'what': 'a key made by init / add-key does not open with its own password file', 'error': str(ex)})
            return None
        desc = ['init / add-key --shared (b) / add-key --clone (c) / add-key (d) through the command line']
        # what was asked for is what the keys are
        ka = s.holders['a']
        for u, kind in (('b', 'shared'), ('c', 'clone'), ('d', 'indep'), ('e', 'shared')):
            ku = s.holders[u]
            s._marker('out', {'a': 'keyrel', 'p': 1, 'u': u, 'of': 'a', 'kind': kind, 'samefam': s.fam[u] == s.fam['a'], 'samekey': ku.userkey == ka.userkey}, 'out')
        # snapshots through the command line, each in its own process
        files = [s.write_file('doc%d.bin' % i, r.randbytes(r.choice([300, 900, 2500]))) for i in range(3)]
        for n, u in enumerate('abcdea'):
            client = 'cli%d' % n
            s._marker('begin', {'want': s.capture(files), 'D': [], 'unknown': False, 'allempty': False, 'p': 1, 'k': 'snap', 'u': u}, client)
            p = cli('snapshot', *common, '-K', keyf[u], '-P', pwf[u], s.src, hashseed=77 + n)
            now, _ = c03_local.observe(str(root))
            new = [nm for nm in now if s.store.objs.get(nm) != now[nm]]
            for nm in sorted(new, key=lambda x: (x.startswith('snapshots/'), x)):
                with s.store.lock:
                    s.store.objs[nm] = now[nm]
                    s.store.events.append(('put', nm, now[nm], client))
            s._marker('end', {'p': 1, 'ok': p.returncode == 0, 'fault': False, 'etype': '~' if p.returncode == 0 else p.stderr[-200:].decode(errors='replace'), 'hung': False}, client)
            desc.append('snapshot(%s) through the command line -> rc %d, %d new objects' % (u, p.returncode, len(new)))
        every_user_looks(s, desc)
        run.case(('command-line-flow', seed))
        return s.trace(extra={'history': desc, 'opts': {'setup': 'command line'}})


def main(run):
    quick = run.tier == 'quick'
    rc.design(run, ['mixed', 'shared'] if quick else ['plain', 'same', 'shared', 'indep', 'mixed', 'chain'],
              mutants=['noRefuse', 'keepReadableOnly'] if quick else ['noRefuse', 'keepReadableOnly', 'noSnapTag', 'noChunkTag'],
              coverage=not quick)
    rc.l2(run, ['mixed', 'shared', 'indep'] if quick else ['same', 'shared', 'indep', 'mixed'],
          num=10 if quick else 120, depth=45, seed=run.seed + 3,
          kinds=('not-refused', 'missing-chunk', 'missing-snapshot'))
    n = 3 if quick else 30
    traces = rc.histories(run, ['same', 'shared', 'clone', 'indep', 'mixed'], range(run.seed * 100, run.seed * 100 + n), 12 if quick else 25,
                          post=every_user_looks)
    # chains of add-key: shared-of-shared, clone of an independent key
    traces += rc.histories(run, ['chain'], range(run.seed * 100 + 60, run.seed * 100 + 60 + (2 if quick else 20)), 14 if quick else 30, post=every_user_looks)
    t_cli = command_line_flow(run, run.seed * 10 + 3)
    if t_cli is not None:
        traces.append(t_cli)
    rc.validate(run, traces, CLAUSES + ['P:AddKeyRelation', 'P:RepeatTransfersNothing', 'P:CommandSucceeds'], label='c06.histories')
    run.coverage['rule'] = ('a case is one command history on a key graph (same / shared / clone / independent / mixed) followed by every '
                            'user listing, restoring, deleting foreign snapshots, cleaning, and the unlock matrix; or one replayed TLC behaviour')
    run.assumptions += ['projection by rv/refcodec.py decides who can decrypt what', 'identical-data aliasing is judged by C07 NoAlias']


def replay(run, path):
    main(run)
