"""Shared machinery of the checks that are decided on Repo.tla / RepoTrace.tla
(C02 C03 C06 C07 C08 C15 C18)."""
import itertools
import json
import os

from .. import harness, repodrv, tlc

ALL_GRAPHS = repodrv.GRAPHS
MC_CFG = {'plain': 'MC_Repo_plain.cfg', 'same': 'MC_Repo_same.cfg', 'shared': 'MC_Repo_shared.cfg',
          'indep': 'MC_Repo_indep.cfg', 'mixed': 'MC_Repo_mixed.cfg'}

CFG_TEMPLATE = '''SPECIFICATION Spec
CONSTANTS
  KeyGraph = "%(graph)s"
  Procs = %(procs)s
  Cids = %(cids)s
  MaxSnaps = %(maxsnaps)d
  MaxFaults = %(maxfaults)d
  Mutant = "%(mutant)s"
VIEW view
INVARIANT TypeOK
INVARIANT Safety
INVARIANT DedupExact
PROPERTY CleanExact
PROPERTY DeleteComplete
PROPERTY Confined
PROPERTY RepeatNoUpload
CHECK_DEADLOCK FALSE
'''


def cfg(graph='mixed', procs='{1, 2}', cids='{1, 2}', maxsnaps=2, maxfaults=1, mutant='none', sim=False):
    t = CFG_TEMPLATE % dict(graph=graph, procs=procs, cids=cids, maxsnaps=maxsnaps, maxfaults=maxfaults, mutant=mutant)
    if sim:
        t = t.replace('VIEW view\n', '')
    return t


# spec mutants: (mutant, key graph, what must be reported)
MUTANTS = {
    'nokeep': ('shared', 'Safety'),
    'keepReadableOnly': ('shared', 'Safety'),
    'chunksFirst': ('plain', 'Safety'),
    'earlyCommit': ('plain', 'Safety'),
    'noSnapTag': ('indep', True),
    'noChunkTag': ('indep', True),
    'cleanInverted': ('plain', True),
    'noRefuse': ('shared', 'Confined'),
    'alwaysUpload': ('plain', 'RepeatNoUpload'),
}


def design(run, graphs, *, mutants=(), big=False, coverage=False):
    """model-check Repo.tla on the given key graphs, then the spec mutants (which must fail)"""
    states = trans = 0
    for g in graphs:
        text = cfg(g, cids='{1, 2, 3}' if big else '{1, 2}', maxsnaps=2, maxfaults=1)
        extra = ['-coverage', '1'] if coverage else []
        res = tlc.check_design('Repo', 'mc_%s.cfg' % g, cfg_text=text, timeout=3000, extra=extra)
        states += res.distinct
        trans += res.generated
        if coverage:
            cov = res.coverage()
            dead = [a for a in ('SnapBegin', 'SnapCheck', 'SnapUpload', 'SnapCommit', 'DelBegin', 'DelSn', 'DelCh',
                                'CleanBegin', 'End', 'Crash', 'Fail', 'FailedEnd', 'SnapAbortEnd') if a in cov and cov[a][1] == 0]
            if dead:
                raise tlc.MachineryError('actions never taken in Repo.tla/%s: %s' % (g, dead))
    caught = []
    for m in mutants:
        g, expect = MUTANTS[m]
        tlc.check_design('Repo', 'mut_%s.cfg' % m, cfg_text=cfg(g, mutant=m), expect_violation=expect, timeout=1200)
        caught.append(m)
    run.add(states=states, transitions=trans, spec_mutants_caught=caught, design_graphs=list(graphs))
    return states


def default_class(t, idx, clause):
    ev = t['events'][idx - 1] if 0 < idx <= len(t['events']) else {}
    if clause == 'P:SnapshotFaithful' and ev.get('allempty'):
        return 'snapshot of only empty files'
    if ev.get('ctx'):
        return ev['ctx']
    return 'any'


def validate(run, traces, clauses, *, label, classify=None, sample=True, module='RepoTrace', cfg_name='Trace_Repo.cfg'):
    """batch-validate traces against RepoTrace.tla; report violations / drift. A trace that stops at a
    known finding is re-validated with that clause waived on that event, so the rest of it is examined."""
    if not traces:
        return {}
    for t in traces:
        t['check'] = sorted(clauses)
    pending = list(range(len(traces)))
    final = {}
    states = 0
    for _round in range(12):
        batch = [traces[i] for i in pending]
        verdicts, res = tlc.validate_traces(module, cfg_name, batch, timeout=3000)
        states += res.distinct
        again = []
        for k, i in enumerate(pending):
            v = verdicts[k + 1]
            idx, clause, rest = v[0], v[1], v[2]
            drift = rest[0] if rest else 'ok'
            t = traces[i]
            final[i] = (idx, clause, drift)
            if clause != 'ok':
                ev = t['events'][idx - 1] if 0 < idx <= len(t['events']) else None
                cls = classify(t, idx, clause) if classify else default_class(t, idx, clause)
                fresh = run.violation(clause, cls, {'label': label, 'graph': t.get('graph'), 'seed': t.get('seed'), 'index': idx, 'event': ev,
                                                    'history': t.get('history', [])[-12:]},
                                      replay={'driver': label, 'graph': t.get('graph'), 'seed': t.get('seed'), 'opts': t.get('opts')})
                if not fresh and ev is not None:
                    ev['waive'] = sorted(set(ev.get('waive', [])) | {clause})
                    again.append(i)
        pending = again
        if not pending:
            break
    for i, (idx, clause, drift) in final.items():
        if drift != 'ok':
            run.note_drift(drift.split('@')[0])
            if len(run.coverage.setdefault('drift_examples', [])) < 5:
                k = int(drift.split('@')[1]) if '@' in drift else 0
                t = traces[i]
                run.coverage['drift_examples'].append({'clause': drift, 'graph': t.get('graph'), 'seed': t.get('seed'),
                                                       'events': t['events'][max(0, k - 4):k]})
    run.add(traces_validated_against_impl=len(traces), trace_events=sum(len(t['events']) for t in traces), trace_states=states)
    if sample and traces:
        t = traces[0]
        run.sample({'graph': t.get('graph'), 'seed': t.get('seed'), 'history': t.get('history', [])[:8],
                    'first_events': t['events'][:10], 'n_events': len(t['events'])})
    return final


def histories(run, graphs, seeds, length, *, flavour='plain', concurrent=3, reads=True, session_kw=None, post=None, foreign=None, **hist_kw):
    """random command histories on real repositories -> traces"""
    traces = []
    for g, seed in itertools.product(graphs, seeds):
        with harness.scratch() as d:
            kw = dict(session_kw or {})
            if 'cache' not in kw:
                # the cache arrangement rotates with the seed: none / one directory per user (each client its own machine) / one directory
                # for every key (the CLI default for one OS user) - the properties hold whatever the clients have cached
                kw['cache'] = [None, '__private__', '__shared__'][seed % 3]
            if kw.get('cache') == '__shared__':
                kw['cache'] = str(d / 'shared-cache')      # one cache directory for every key (the CLI default for one OS user)
            hk = dict(hist_kw)
            from .. import refcodec as _rc
            try:
                repodrv.Session(g, d / 'probe', seed=seed, **{k_: v_ for k_, v_ in kw.items() if k_ != 'cache'})
            except _rc.FormatError as ex:
                # a key made by init / add-key does not open with its own password (independent codec): a verdict, not a harness failure
                run.violation('P:UnlockOwnPasswordOnly', 'any', {'graph': g, 'seed': seed, 'what': 'a key written by init / add-key does not open with its own password', 'error': str(ex)})
                continue
            if flavour == 'b2':
                # the real B2 adapter over a service model with file versions and hide markers
                from .. import b2store, membackend
                st = membackend.Store()
                s = repodrv.Session(g, d, seed=seed, concurrent=concurrent, foreign=foreign, store=st, backend_factory=b2store.factory(st, 2 + seed % 2), **kw)
                hk.update(p_crash=0.0, p_overlap_fail=0.0)
            elif flavour == 's3':
                # the real S3 adapter (paged listings, page size 2 or 3) between the commands and the store; fault-free histories only
                from .. import membackend, s3store
                st = membackend.Store()
                s = repodrv.Session(g, d, seed=seed, concurrent=concurrent, foreign=foreign, store=st, backend_factory=s3store.factory(st, 2 + seed % 2), **kw)
                hk.update(p_crash=0.0, p_overlap_fail=0.0)
            else:
                s = repodrv.Session(g, d, seed=seed, flavour=flavour, concurrent=concurrent, foreign=foreign, **kw)
            desc = repodrv.random_history(s, length, reads=reads, **hk)
            if post:
                post(s, desc)
            t = s.trace(extra={'history': desc, 'opts': {'flavour': flavour, 'concurrent': concurrent, 'length': length}})
            traces.append(t)
            run.case((g, seed, tuple(desc)), nontrivial=len(t['events']) > 10)
    return traces


def l2(run, graphs, num, depth, seed, *, kinds, flavour='plain'):
    """TLC-simulated behaviours of Repo.tla (one process) stepped through the real commands; the projected
    backend state is compared with TLC's state after every command. `kinds`: the kinds of disagreement that
    contradict the property of the calling check (anything else is reported as DRIFT)."""
    total = 0
    for g in graphs:
        if g == 'clone':
            continue
        text = cfg(g, procs='{1}', cids='{1, 2, 3}', maxsnaps=3, maxfaults=1, sim=True)
        behs, res = tlc.simulate('Repo', 'sim_%s.cfg' % g, num=num, depth=depth, seed=seed, cfg_text=text)
        for i, b in enumerate(behs):
            with harness.scratch() as d:
                r = repodrv.L2Replayer(g, d, seed=seed * 1000 + i, flavour=flavour)
                n = r.run(b)
                total += n
                run.case(('l2', g, seed, i), nontrivial=n > 2)
                for pr in r.problems:
                    if 'unreplayable' in pr['kinds']:
                        run.add(unreplayable=1)
                        continue
                    hit = [k for k in pr['kinds'] if k in kinds]
                    if not hit:
                        for k in pr['kinds']:
                            run.note_drift('L2:' + k)
                        continue
                    run.violation('L2:' + hit[0], 'any', dict(pr, graph=g, behaviour=[st['last'] for _, st in b][:40]),
                                  replay={'driver': 'l2', 'graph': g, 'seed': seed, 'index': i})
        if behs:
            run.sample({'l2_behaviour': [dict(st['last']) for _, st in behs[0]][:10], 'graph': g}, limit=8)
    run.add(l2_commands_replayed=total)
    return total


def l2_interleaved(run, graphs, num, depth, seed, *, kinds, flavour='plain'):
    """two client processes: TLC behaviours of overlapping snapshots (with crashes) replayed step by step on two real processes"""
    total = 0
    for g in graphs:
        text = cfg(g, procs='{1, 2}', cids='{1, 2, 3}', maxsnaps=3, maxfaults=1, sim=True).replace('CHECK_DEADLOCK FALSE', 'CONSTRAINT OnlySnapshots\nCHECK_DEADLOCK FALSE')
        behs, res = tlc.simulate('Repo', 'simi_%s.cfg' % g, num=num, depth=depth, seed=seed, cfg_text=text)
        for i, b in enumerate(behs):
            with harness.scratch() as d:
                r = repodrv.InterleavedReplayer(g, d, seed=seed * 1000 + i, flavour=flavour)
                n = r.run(b)
                total += n
                run.case(('l2i', g, seed, i), nontrivial=n > 3)
                for pr in r.problems:
                    if 'unreplayable' in pr['kinds']:
                        run.add(unreplayable=1)
                        continue
                    hit = [k for k in pr['kinds'] if k in kinds]
                    if not hit:
                        for k in pr['kinds']:
                            run.note_drift('L2:' + k)
                        continue
                    run.violation('L2i:' + hit[0], 'any', dict(pr, graph=g, behaviour=[st['last'] for _, st in b][:40]),
                                  replay={'driver': 'l2_interleaved', 'graph': g, 'seed': seed, 'index': i})
        if behs:
            run.sample({'two_process_behaviour': [dict(st['last']) for _, st in behs[0]][:12], 'graph': g}, limit=8)
    run.add(l2_interleaved_steps=total)
    return total
