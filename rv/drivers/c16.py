"""C16 - every request sent to an S3 service is correctly signed.

spec    : SigV4Trace.tla - per captured request: signature verifies (independent recomputation from the wire bytes), the path on the
          wire is the canonical encoding of the intended /bucket/name (encoded exactly once), the query string is the canonical one
          (sorted, %20 / %2F), the signed headers include host, x-amz-date, x-amz-content-sha256, declared payload hash and length
          equal the body actually sent, scope date = x-amz-date.
binding : the real S3Compatible / S3 adapters (own constructors) talk to a transport that captures method, raw request target, headers
          and body; names, prefixes and continuation tokens over character classes (TLC-style enumeration: one representative per
          class and position) and seeded random text, payloads as bytes and as streams with a retry in between, several regions /
          hosts (with port) / credentials, clocks around midnight.
"""
import asyncio
import datetime
import io
import random

import httpx

from .. import fakes3, sigv4, tlc, vclock

LEVEL = 'other'
CLASSES = {'alnum': 'aZ9', 'unreserved': '-_.~', 'space': ' ', 'plus': '+', 'pct': '%', 'query': '?&=#', 'sub': "!$'()*,;:@", 'other': '"<>[]^`{|}\\',
           'latin1': 'é', 'cjk': '漢', 'astral': '😀', 'pct-seq': '%41', 'slash': '/'}


def b(s):
    return list(s.encode('utf-8', 'surrogateescape')) if isinstance(s, str) else list(s)


def names(rng, quick):
    out = []
    for cls, chars in CLASSES.items():
        for ch in (chars[:1] if quick else chars):
            if ch == '/':
                out += ['a/b', 'deep/er/path']
                continue
            out += [ch + 'x', 'x' + ch, 'd/' + ch + '/e']
    for _ in range(5 if quick else 60):
        n = rng.randrange(1, 12)
        out.append(''.join(rng.choice('ab/ %+?&=#~é漢-_.*:@') for _ in range(n)).strip('/') or 'z')
    out = [n.replace('//', '/') for n in out if n and not n.startswith('/')]
    # dot segments are not object names replicat or its users can reach through a file system: excluded (assumption)
    return [n for n in out if not any(seg in ('.', '..', '') for seg in n.split('/'))]


class FixedClock(datetime.datetime):
    """controlled clock of the adapter module; it ADVANCES with every reading, so one adapter object signs requests on both sides of a
    date change when the session starts just before midnight UTC (date, scope and signing key must all follow)"""
    now_value = datetime.datetime(2031, 12, 31, 23, 59, 59)
    step = datetime.timedelta(milliseconds=370)

    @classmethod
    def utcnow(cls):
        v = cls.now_value
        cls.now_value = v + cls.step
        return v

    @classmethod
    def now(cls, tz=None):
        v = cls.utcnow()
        return v.replace(tzinfo=datetime.timezone.utc).astimezone(tz) if tz is not None else v


def events_from(fake, intents):
    """captured requests + what the harness asked for -> SigV4Trace events"""
    evs = []
    for rec in fake.requests:
        v = rec['verdict']
        path, _, query = rec['target'].partition(b'?')
        it = intents.get(rec['n'], {})
        pairs = [[list(sigv4.pct_decode(k)), list(sigv4.pct_decode(val))] for k, val in sigv4.split_query(query)]
        dq = {bytes(k).decode(): bytes(val).decode('utf-8', 'surrogateescape') for k, val in pairs}
        intended = True
        if it.get('kind') == 'list':
            intended = dq.get('list-type') == '2' and dq.get('prefix', '') == it.get('prefix', '') and \
                ('continuation-token' not in dq or dq['continuation-token'] in it.get('tokens', ()))
        elif query:
            intended = False
        h = rec['headers']
        evs.append({'method': rec['method'], 'sigOk': bool(v.get('sigOk')), 'wirePath': list(path),
                    'intendedPath': b(it['path']) if it.get('path') is not None else list(sigv4.pct_decode(path)),      # command-level uploads: names chosen by the command

                    'wireQuery': list(query), 'pairs': pairs, 'intended': bool(intended), 'signed': v.get('signed', []),
                    'declaredHash': v.get('declaredHash', ''), 'bodyHash': v.get('bodyHash', ''),
                    'declaredLen': int(h['content-length']) if 'content-length' in h else -1, 'bodyLen': len(rec['body']),
                    'scopeDateOk': not any('scope date' in p for p in v.get('problems', [])), 'problems': v.get('problems', []),
                    'target': rec['target'].decode('ascii', 'replace')[:120], 'op': it.get('op', '?')})
    return evs


def session(run, rng, seed, nm_list, quick, region='eu-test-1', host='s3.example.test:9000', secret=None, clock=None, page=2, scheme='http', big=False, objects=False):
    from replicat.backends import s3c
    fake = fakes3.FakeS3(page_size=page, secret=secret or 'wJalrXUtnFEMI/K7MDENG+bPxRfiCYEXAMPLEKEY')
    be = fakes3.client(fake, region=region, host=host, scheme=scheme)
    intents = {}
    tokens = []
    old_dt = s3c.datetime
    s3c.datetime = FixedClock
    FixedClock.now_value = clock or datetime.datetime(2031, 5, 6, 7, 8, 9)

    async def op(label, path, coro, kind='object', prefix=''):
        before = fake.calls
        fake.op_calls = 0
        try:
            return await coro
        except httpx.HTTPError:
            return None
        except httpx.InvalidURL as ex:
            # the adapter could not even form the request for a legal object name: no correctly signed request exists for this
            # operation (the path was handed over without the percent-encoding SigV4 and the wire both need) - a verdict, not a crash
            run.violation('P:PathEncodedOnce', 'any', {'operation': label, 'name': repr(path), 'error': repr(ex)[:200], 'seed': seed})
            return None
        finally:
            for n in range(before + 1, fake.calls + 1):
                intents[n] = {'op': label, 'path': path, 'kind': kind, 'prefix': prefix, 'tokens': tokens}
                # tokens issued so far by the service
            for rec in fake.requests[before:]:
                pass

    async def go():
        fails = {'n': 0}

        def fault(rec):
            # one transient 503 in the middle of a stream upload: the retry must re-send and re-sign the whole body
            if rec['method'] == 'PUT' and fails['n'] == 1:
                fails['n'] = 2
                fails['k'] = fails.get('k', 0) + 1
                if fails['k'] % 2:
                    return httpx.Response(503, content=b'slow down')
                # a failure without any HTTP response: the connection is reset after the body was read
                return httpx.ReadError('connection reset by the fault script')
            return None
        fake.faults = fault
        for nm in nm_list:
            p = '/%s/%s' % (fake.bucket, nm)
            data = rng.randbytes(rng.choice([0, 1, 33, 200]))
            await op('upload', p, be.upload(nm, data))
            if rng.random() < 0.5:
                fails['n'] = 1
                await op('upload_stream', p, be.upload_stream(nm, io.BytesIO(data), len(data), 16))
                fails['n'] = 0
            await op('exists', p, be.exists(nm))
            await op('download', p, be.download(nm))
            await op('download_stream', p, be.download_stream(nm, io.BytesIO(), 16))
        for prefix in [''] + [n[:rng.randrange(1, len(n) + 1)] for n in rng.sample(nm_list, min(len(nm_list), 6 if quick else 25))]:
            async def lst(prefix=prefix):
                return [x async for x in be.list_files(prefix)]
            await op('list', '/%s' % fake.bucket, lst(), kind='list', prefix=prefix)
        if objects:
            # the upload-objects COMMAND over the adapter: a directory with a regular file and a symbolic link to a larger file; whatever
            # the command declares (length, hash) must be what it sends
            import tempfile
            from pathlib import Path
            from replicat.repository import Repository
            with tempfile.TemporaryDirectory() as td:
                tree = Path(td) / 'tree'
                tree.mkdir()
                (tree / 'plain.bin').write_bytes(rng.randbytes(700))
                (Path(td) / 'target.bin').write_bytes(rng.randbytes(30_000))
                (tree / 'linked.bin').symlink_to(Path(td) / 'target.bin')
                repo = Repository(be, concurrent=2, quiet=True, cache_directory=None)
                await op('upload_objects', None, repo.upload_objects([tree]))
        if big:
            # payloads at realistic sizes: a default-size chunk, exactly one 16 MiB read piece, and more than that (streamed with the default
            # stream chunk size); the declared hash must be the hash of what was sent whatever the size
            for j, n in enumerate((5_120_000, 16 * 1024 * 1024, 16 * 1024 * 1024 + 4099)):
                nm = 'big/object-%d' % j
                await op('upload_stream', '/%s/%s' % (fake.bucket, nm), be.upload_stream(nm, io.BytesIO(rng.randbytes(n)), n))
            fake.objects.clear()
        for nm in nm_list[:3]:
            await op('delete', '/%s/%s' % (fake.bucket, nm), be.delete(nm))
        await be.close()
    try:
        with vclock.virtual():
            asyncio.run(go())
    finally:
        s3c.datetime = old_dt
    tokens.extend(getattr(fake, 'issued_tokens', []))
    evs = events_from(fake, intents)
    run.case(('s3', seed, len(nm_list), region, host), nontrivial=len(evs) > 5)
    return {'region': region, 'host': host, 'events': evs}


def main(run):
    quick = run.tier == 'quick'
    rng = random.Random(run.seed + 16)
    nm = names(rng, False)
    if quick:
        nm = nm[:len(nm) - 45]
    traces = []
    chunk = 10
    groups = [nm[i:i + chunk] for i in range(0, len(nm), chunk)]
    variants = [dict(), dict(region='us-east-1', host='minio.local'), dict(secret='s/+=' * 10, host='127.0.0.1:9877'),
                dict(clock=datetime.datetime(2031, 12, 31, 23, 59, 59)), dict(clock=datetime.datetime(2032, 1, 1, 0, 0, 0), page=3),
                # host spellings that the HTTP client normalises on the wire: upper case, an explicit default port
                dict(host='S3.Example.Test:9000'), dict(host='minio.local:80'), dict(scheme='https', host='s3.eu-test-1.example.test', big=True), dict(objects=True)]
    for i in range(max(len(groups), len(variants))):          # every name group and every variant at least once
        traces.append(session(run, rng, i, groups[i % len(groups)], quick, **variants[i % len(variants)]))

    def on_reject(t, idx, clause):
        e = t['events'][idx - 1]
        fresh = run.violation(clause, 'any', {k: e[k] for k in ('op', 'method', 'target', 'problems', 'signed', 'declaredLen', 'bodyLen')} | {'region': t['region'], 'host': t['host']})
        return not fresh
    final, states = tlc.validate_loop('SigV4Trace', 'Trace_Repo.cfg', traces, on_reject)
    nreq = sum(len(t['events']) for t in traces)
    run.add(requests_validated=nreq, traces=len(traces), trace_states=states,
            explanation='%d HTTP requests emitted by the real S3 adapter were captured at the transport; TLC evaluated the structural SigV4 clauses '
                        '(canonical path / query encoding over byte sequences, signed headers, declared hash and length) on each, and an independent '
                        'implementation of the published algorithm recomputed every signature from the wire bytes' % nreq)
    e = traces[0]['events'][0]
    run.sample({k: e[k] for k in ('op', 'method', 'target', 'signed', 'sigOk', 'declaredLen', 'bodyLen')})
    run.coverage['rule'] = 'a case is one adapter session (a dozen object names over character classes, all operations, listings with prefixes and continuation tokens) on one region/host/credential/clock variant'
    run.assumptions += ['object names have no empty, . or .. path segments (the HTTP client normalises them away)', 'rv/sigv4.py implements the published SigV4 algorithm', 'requests are captured at the httpx transport: what httpx puts on the wire']


def replay(run, path):
    main(run)
