"""C11 - chunk boundaries are content-defined and re-synchronise after edits.

deterministic half: Chunker.tla INVARIANT SuffixLocal (the cut taken at a position outside the tail zone is a function of the Max bytes
  that follow it); on real traces ChunkerTrace.tla P:SuffixLocal - for prefix1+S and prefix2+S, from the first boundary the two have in
  common all chunks outside the tail zone coincide.
statistical half (measured, not proved): after an aligned insertion / deletion / overwrite in high-entropy data with min <= max/16 the
  first common boundary lies within R*max of the end of the edit, R = 960 (failure probability < 1e-15 per case under the i.i.d.
  idealisation, DESIGN 6 C11); different keys give different cut sequences; the same file at another aligned stream position of a real
  snapshot keeps most of its chunks (padding clause).
"""
import os
import random
import sys

from . import c10
from .. import chunker, harness, repodrv, tlc

LEVEL = 'exploration'
CLAUSES = ['P:SuffixLocal', 'P:Resync', 'P:KeysDiffer', 'P:PaddingAlignsFiles', 'P:Lossless']
R = 960


def ev(impl, cuts, data, rel, shift=0, frm=0, editend=0, grp=None):
    e = c10.event(impl, 0, [len(data)], cuts, data)
    e.update(rel=rel, shift=shift, editend=editend, grp=grp or impl, key='%s/%s/%d' % (impl, rel, shift))
    e['from'] = frm
    e['pieces'] = [len(data)]
    return e


def run_impl(impl, data, key, mn, mx, seg=None):
    pieces = [data] if seg is None else c10.split(data, seg)
    if impl == 'adapter':
        return chunker.adapter(pieces, key, mn, mx)
    return chunker.libcuts(pieces, key, mn, mx, 'zero')


def suffix_group(rng, mn, mx, n):
    S = rng.randbytes(n)
    key = c10.make_key(rng)
    evs = []
    for impl in ('adapter', 'lib'):
        pl = [4 * rng.randrange(0, 3 * mx), 4 * rng.randrange(1, 5 * mx)]
        first = True
        for p in pl + [0]:
            data = rng.randbytes(p) + S
            seg = None if rng.random() < 0.5 else [len(data) // 3, len(data) - len(data) // 3]
            cuts = run_impl(impl, data, key, mn, mx, seg)
            evs.append(ev(impl, cuts, data, 'same' if first else 'suffix', shift=p, frm=p))
            first = False
    return {'min': mn, 'max': mx, 'events': evs, 'resync': R * mx, 'keyhex': key.hex(), 'stream_len': n, 'kind': 'shared suffix'}


def edit_group(rng, mn, mx, n):
    X = rng.randbytes(n)
    key = c10.make_key(rng)
    q = 4 * rng.randrange(0, n // 16)               # the edit lies in the first quarter
    k = 4 * rng.randrange(1, 2 * mx)
    kind = rng.choice(['insert', 'delete', 'overwrite'])
    if kind == 'insert':
        Y, delta, end_orig, end_new = X[:q] + rng.randbytes(k) + X[q:], k, q, q + k
    elif kind == 'delete':
        Y, delta, end_orig, end_new = X[:q] + X[q + k:], -k, q + k, q
    else:
        Y, delta, end_orig, end_new = X[:q] + rng.randbytes(k) + X[q + k:], 0, q + k, q + k
    evs = []
    for impl in ('adapter', 'lib'):
        evs.append(ev(impl, run_impl(impl, X, key, mn, mx), X, 'same', shift=0, frm=end_orig))
        evs.append(ev(impl, run_impl(impl, Y, key, mn, mx), Y, 'edit', shift=delta, frm=end_new, editend=end_orig))
    return {'min': mn, 'max': mx, 'events': evs, 'resync': R * mx, 'keyhex': key.hex(), 'stream_len': n, 'kind': '%s of %d bytes at %d' % (kind, k, q)}


def key_group(rng, mn, mx, n):
    X = rng.randbytes(n)
    k1, k2 = c10.make_key(rng), c10.make_key(rng)
    evs = []
    for impl in ('adapter', 'lib'):
        evs.append(ev(impl, run_impl(impl, X, k1, mn, mx), X, 'same'))
        evs.append(ev(impl, run_impl(impl, X, k2, mn, mx), X, 'otherkey'))
    return {'min': mn, 'max': mx, 'events': evs, 'resync': 0, 'keyhex': k1.hex(), 'stream_len': n, 'kind': 'two keys'}


def realign(rng, seed, graph):
    """padding clause through real snapshots: file B after file A, then B after a file C of another length"""
    with harness.scratch() as d:
        s = repodrv.Session(graph, d, seed=seed, min_length=32, max_length=512)
        B = s.write_file('zz-big.bin', rng.randbytes(40_000))
        A = s.write_file('a.bin', rng.randbytes(4 * rng.randrange(10, 400) + rng.randrange(0, 4)))
        s.snapshot('a', [A, B])
        n1 = sum(1 for e in s.store.events if e[0] == 'put' and e[1].startswith('data/'))
        C = s.write_file('c.bin', rng.randbytes(4 * rng.randrange(10, 400) + rng.randrange(1, 4)))
        s.snapshot('a', [C, B])
        n2 = sum(1 for e in s.store.events if e[0] == 'put' and e[1].startswith('data/')) - n1
        s.sync_defs()
        total = len(s.defs[-1]['table'])
        return {'a': 'call', 'rel': 'realign', 'reused': total - n2, 'total': total, 'cuts': [], 'starts': [], 'key': 'r', 'grp': 'r'}


def repo_suffix_group(rng, seed, graph, piece, mn, mx, with_small=False):
    """the shared-suffix relation through REAL snapshots: file A (its size an exact multiple of the read-piece size, or not) followed by
    a larger file B; then 4 bytes are removed from / inserted at the front of A and the snapshot is repeated. The stream handed to the
    chunker is observed at RepositoryProps.chunkify (pieces in, chunks out): the second stream is the first one with another prefix, so from
    the first common boundary on all chunks outside the tail zone of the STREAM must coincide - file ends inside the stream, piece
    boundaries and empty files in between must not matter."""
    from replicat import repository as rrepo
    from . import c09
    from .. import sched
    calls = []
    orig = rrepo.RepositoryProps.chunkify

    def tee(self, it):
        rec = {'pieces': [], 'cuts': []}
        calls.append(rec)

        def src():
            for pc in it:
                rec['pieces'].append(bytes(pc))
                yield pc
        for c in orig(self, src()):
            rec['cuts'].append(bytes(c))
            yield c
    import pathlib
    vanish = {'on': False}
    orig_open = pathlib.Path.open

    def open_(self, *a, **kw):
        # a file that was listed but is gone when its turn to be read comes (deleted by somebody else in between)
        if vanish['on'] and self.name == 'lock.bin' and sys._getframe(1).f_code.co_filename.endswith('replicat/repository.py'):
            self.unlink(missing_ok=True)
        return orig_open(self, *a, **kw)
    k = rng.randrange(1, 4)
    exact_first = rng.random() < 0.5
    la = k * piece if exact_first else k * piece + 4
    A1 = rng.randbytes(la)
    A2 = A1[4:] if exact_first else A1[8:]          # exact multiple in exactly one of the two snapshots
    if rng.random() < 0.5:
        A1, A2 = A2, A1
    Bdata = rng.randbytes(la + 4 * rng.randrange(mx, 4 * mx))
    with harness.scratch() as d:
        s = repodrv.Session(graph, d, seed=seed, min_length=mn, max_length=mx)
        extra = [s.write_file('empty.bin', b'')] if rng.random() < 0.5 else []
        small = {}
        if with_small:
            # small files streamed before A: an unaligned one, and one that vanishes before the second snapshot reads it
            small = {'tiny.bin': rng.randbytes(rng.choice([13, 5, 10, 3])), 'lock.bin': rng.randbytes(40), 'mid.bin': rng.randbytes(rng.choice([57, 64, 30]))}
            extra += [s.write_file(n, b) for n, b in small.items()]
        B = s.write_file('zz-b.bin', Bdata)
        rrepo.RepositoryProps.chunkify = tee
        pathlib.Path.open = open_
        c09.install(sched.Controller(piece=piece))
        try:
            A = s.write_file('a.bin', A1)
            o1 = s.snapshot('a', extra + [A, B])
            A = s.write_file('a.bin', A2)
            vanish['on'] = with_small
            o2 = s.snapshot('a', extra + [A, B], fault=with_small)
        finally:
            vanish['on'] = False
            pathlib.Path.open = orig_open
            c09.uninstall()
            rrepo.RepositoryProps.chunkify = orig
    assert o1.ok and (o2.ok or with_small) and len(calls) == 2, (o1.etype, o2.etype, len(calls))
    streams = [b''.join(c['pieces']) for c in calls]
    # padding clause, stated directly: every file starts at a multiple of the alignment in the stream handed to the chunker
    contents = [dict(small, **{'a.bin': A1, 'zz-b.bin': Bdata}), dict(small, **{'a.bin': A2, 'zz-b.bin': Bdata})]
    starts = []
    for i, st in enumerate(streams):
        if i == 1 and not o2.ok:
            continue        # the snapshot was refused because a file vanished: nothing was recorded, nothing to judge
        for n, b in sorted(contents[i].items()):
            if len(b) >= 10 and not (i == 1 and n == 'lock.bin'):
                starts.append({'a': 'call', 'rel': 'starts', 'file': n, 'snapshot': i + 1, 'offset': st.find(b), 'cuts': [], 'starts': [], 'key': 's', 'grp': 's'})
    if not o2.ok:
        c = calls[0]
        e = ev('repository', c['cuts'], streams[0], 'same', shift=0, frm=0)
        e['pieces'] = [len(x) for x in c['pieces']][:12]
        return {'min': mn, 'max': mx, 'events': [e] + starts, 'resync': R * mx, 'keyhex': '', 'stream_len': len(streams[0]),
                'kind': 'real snapshot; the second one was refused (%s) because a listed file had vanished' % o2.etype}
    # the shared suffix starts inside A (A2 is A1 without its first bytes, or the other way round); whatever precedes A differs
    q1, q2 = streams[0].find(A1), streams[1].find(A2)
    common = min(len(A1), len(A2))
    p1, p2 = q1 + len(A1), q2 + len(A2)
    if q1 < 0 or q2 < 0 or streams[0][p1 - common:] != streams[1][p2 - common:]:
        # the streams are not related as expected (e.g. a file is missing from one of them): only the directly stated clauses are judged
        c = calls[0]
        e = ev('repository', c['cuts'], streams[0], 'same', shift=0, frm=0)
        e['pieces'] = [len(x) for x in c['pieces']][:12]
        return {'min': mn, 'max': mx, 'events': [e] + starts, 'resync': R * mx, 'keyhex': '', 'stream_len': len(streams[0]), 'kind': 'real snapshots, unrelated streams'}
    evs = list(starts)
    for i, (c, pfx) in enumerate(zip(calls, (p1 - common, p2 - common))):
        e = ev('repository', c['cuts'], streams[i], 'same' if i == 0 else 'suffix', shift=pfx, frm=pfx)
        e['pieces'] = [len(x) for x in c['pieces']][:12]
        evs.append(e)
    return {'min': mn, 'max': mx, 'events': evs, 'resync': R * mx, 'keyhex': '', 'stream_len': len(streams[0]),
            'kind': 'real snapshots: A (%d bytes, read piece %d) then B, A edited at its front' % (p1, piece)}


def main(run):
    quick = run.tier == 'quick'
    rng = random.Random(run.seed + 11)
    base = open(os.path.join(tlc.SPEC_DIR, 'MC_Chunker.cfg')).read()
    only = base.replace('INVARIANT Lossless\nINVARIANT NonEmpty\nINVARIANT Bounds\nINVARIANT SegmentationIndependent\n', '')
    res = tlc.check_design('Chunker', 'mc11.cfg', cfg_text=only)
    run.add(states=res.distinct, transitions=res.generated)
    chunker.lib()
    traces = []
    params = [(4, 64), (2, 64), (8, 128), (4, 96)]
    n = 131072
    for i in range(6 if quick else 150):
        mn, mx = params[i % len(params)]
        traces.append(suffix_group(rng, mn, mx, 8 * 1024 if quick else 32 * 1024))
        run.case(('suffix', i, mn, mx))
    # ... and at realistic scale: a shared suffix of 9 MiB delivered in one piece (a large last file), cuts around multiples of MiB
    for i in range(1 if quick else 6):
        traces.append(suffix_group(rng, 4096, 65536, 9 * (1 << 20) + 4096 * i))
        run.case(('suffix-megabytes', i))
    for i in range(10 if quick else 120):
        mn, mx = params[i % 2]
        traces.append(edit_group(rng, mn, mx, n))
        run.case(('edit', i, mn, mx, traces[-1]['kind']))
    for i in range(3 if quick else 40):
        traces.append(key_group(rng, 4, 64, 16384))
        run.case(('keys', i))
    for i in range(8 if quick else 60):
        g = ['plain', 'shared', 'mixed'][i % 3]
        mn_, mx_ = [(8, 128), (8, 256), (6, 250), (10, 126)][i % 4]      # also limits that are not multiples of the alignment
        traces.append(repo_suffix_group(rng, run.seed * 100 + i, g, [1024, 4096, 512][i % 3], mn_, mx_, with_small=bool(i % 2)))
        run.case(('repo-suffix', i, g))
    pad = {'min': 32, 'max': 512, 'events': [realign(rng, run.seed * 10 + i, g) for i, g in enumerate(['plain', 'shared'] if quick else ['plain', 'shared', 'same', 'indep', 'mixed', 'plain'])],
           'resync': 0, 'keyhex': '', 'stream_len': 0, 'kind': 'same file at two aligned stream positions of real snapshots'}
    traces.append(pad)
    run.case(('padding', len(pad['events'])))
    for t in traces:
        t['check'] = CLAUSES
    verdicts, res = tlc.validate_traces('ChunkerTrace', 'Trace_Repo.cfg', traces, timeout=3000)
    worst = 0
    for t in traces:
        evs = t['events']
        for a, b in zip(evs, evs[1:]):
            if b.get('rel') == 'edit':
                ba = {s_ - a['shift'] for s_ in a['starts'] if s_ >= a['from']}
                bb = {s_ - b['shift'] for s_ in b['starts'] if s_ >= b['from']}
                c = [x for x in ba & bb if x >= b['editend']]
                if c:
                    worst = max(worst, (min(c) - b['editend']) / t['max'])
    run.add(max_observed_resync_distance_in_max_lengths=round(worst, 2), resync_bound_in_max_lengths=R)
    for tid, v in sorted(verdicts.items()):
        if v[1] != 'ok':
            t = traces[tid - 1]
            e = t['events'][v[0] - 1]
            run.violation(v[1], 'any', {'min': t['min'], 'max': t['max'], 'kind': t['kind'], 'key': t['keyhex'], 'stream_len': t['stream_len'],
                                        'call': {k: e.get(k) for k in ('impl', 'rel', 'shift', 'from', 'editend', 'total', 'reused')}, 'first_cuts': e['cuts'][:12]})
    run.sample({'kind': traces[7]['kind'], 'min': traces[7]['min'], 'max': traces[7]['max'], 'first_cuts': traces[7]['events'][0]['cuts'][:16]})
    run.coverage['rule'] = ('a case is one group of related streams chunked by the adapter and the rebuilt library: two prefixes + shared suffix; original + '
                            'aligned local edit (insert / delete / overwrite, 128 KiB of random data, edit in the first quarter); one stream under two keys; one pair of real snapshots whose chunker input streams share a suffix (file ends on / off read-piece boundaries); '
                            'one pair of real snapshots with the same file at two stream positions')
    run.assumptions += ['the re-synchronisation bound R*max (R = 960) is statistical: candidate hashes idealised as i.i.d.; observed maximum reported',
                        'high-entropy data, min <= max/16 for the statistical clauses']


def replay(run, path):
    main(run)
