"""C02 - no history of snapshot/delete/clean ever damages a remaining snapshot.

design  : Repo.tla, INVARIANT Safety on every key graph (+ spec mutants nokeep / keepReadableOnly / cleanInverted)
L2      : TLC-simulated behaviours of Repo.tla replayed through the real commands, projected state compared
L3      : random histories (several users, content-defined chunking, overlapping snapshots) recorded at the
          backend and validated by RepoTrace.tla: Safety after every single mutation, faithful commit,
          and every remaining snapshot restored with a reader's key at the end of the history
"""
from . import repo_common as rc

LEVEL = 'model_checking'
CLAUSES = ['P:Safety', 'P:CommitComplete', 'P:SnapshotWellFormed', 'P:SnapshotFaithful', 'P:RestoreOk', 'P:RestoreSelect',
           'P:RestoreNothingElse']


def restore_all(sess, desc):
    for s in sess.listed():
        d = sess.defs[s - 1]
        for u in d['readers'][:1]:
            o = sess.restore(u, '^%s$' % sess.snapname[s])
            desc.append('final-restore(%s,%d)->%s' % (u, s, o.etype))


def main(run):
    quick = run.tier == 'quick'
    rc.design(run, ['mixed', 'shared'] if quick else ['plain', 'same', 'shared', 'indep', 'mixed'],
              mutants=['nokeep', 'keepReadableOnly'] if quick else ['nokeep', 'keepReadableOnly', 'cleanInverted', 'chunksFirst', 'earlyCommit'],
              big=False, coverage=not quick)
    rc.l2(run, ['mixed', 'shared', 'plain'] if quick else ['plain', 'same', 'shared', 'indep', 'mixed'],
          num=12 if quick else 150, depth=45, seed=run.seed + 1, kinds=('missing-chunk', 'missing-snapshot', 'command-failed'))
    rc.l2_interleaved(run, ['shared', 'mixed'] if quick else ['plain', 'same', 'shared', 'indep', 'mixed'], 6 if quick else 80, 40, run.seed + 21,
                      kinds=('missing-chunk', 'missing-snapshot', 'command-failed'))
    traces = rc.histories(run, rc.ALL_GRAPHS, range(run.seed * 100, run.seed * 100 + (3 if quick else 40)), 14 if quick else 30, post=restore_all)
    traces += rc.histories(run, ['shared', 'mixed'], range(run.seed * 100 + 50, run.seed * 100 + (52 if quick else 70)), 12 if quick else 25,
                           flavour='async', concurrent=2, post=restore_all)
    rc.validate(run, traces, CLAUSES, label='c02.histories')
    run.coverage['rule'] = ('a case is one command history (key graph x seed) or one replayed TLC behaviour; non-trivial = '
                            'more than 10 backend events / more than 2 replayed commands; distinct by the command sequence')
    run.assumptions += ['destructive commands are not overlapped with other commands (README)',
                        'projection by the independent codec rv/refcodec.py', 'MemBackend is a faithful object store (C13 checks the real adapters)']


def replay(run, path):
    main(run)
