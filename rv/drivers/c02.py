"""C02 - no history of snapshot/delete/clean ever damages a remaining snapshot.

design  : Repo.tla, INVARIANT Safety on every key graph (+ spec mutants nokeep / keepReadableOnly / cleanInverted)
L2      : TLC-simulated behaviours of Repo.tla replayed through the real commands, projected state compared
L3      : random histories (several users, content-defined chunking, overlapping snapshots) recorded at the
          backend and validated by RepoTrace.tla: Safety after every single mutation, faithful commit,
          and every remaining snapshot restored with a reader's key at the end of the history
"""
from . import repo_common as rc

LEVEL = 'model_checking'
CLAUSES = ['P:Safety', 'P:CommitComplete', 'P:SnapshotWellFormed', 'P:SnapshotFaithful', 'P:RestoreOk', 'P:RestoreSelect',
           'P:RestoreNothingElse']


def restore_all(sess, desc):
    for s in sess.listed():
        d = sess.defs[s - 1]
        for u in d['readers'][:1]:
            o = sess.restore(u, '^%s$' % sess.snapname[s])
            desc.append('final-restore(%s,%d)->%s' % (u, s, o.etype))


def stale_knowledge(run, graphs, seeds, wide=False, caches=('__private__', '__shared__', None)):
    """what a client has learned (its snapshot cache, anything it remembers) is made stale by ANOTHER client's delete / clean, then the
    first client snapshots the very same data again: the new snapshot must be complete although "it has seen those chunks before"."""
    from .. import harness, repodrv
    traces = []
    for g in graphs:
        for seed in seeds:
            for cache in caches:
                with harness.scratch() as d:
                    c = str(d / 'shared-cache') if cache == '__shared__' else cache
                    s = repodrv.Session(g, d, seed=seed, cache=c)
                    r = s.rng
                    content = repodrv.Content(r, nblocks=6)
                    files = [s.write_file('k%d.bin' % i, content.make() + r.randbytes(200)) for i in range(3)]
                    if wide:
                        # a snapshot of realistic width: about a thousand chunks, a snapshot object of well over 64 KiB
                        files.append(s.write_file('wide.bin', r.randbytes(46_000)))
                    desc = []
                    for owner in s.users:
                        o = s.snapshot(owner, files)
                        desc.append('snapshot(%s)->%s' % (owner, o.etype))
                        for u in s.users:            # everybody looks (and caches what it can read)
                            s.ls(u)
                            if r.random() < 0.5:
                                s.clean(u)
                        mine = [x for x in s.readable(owner)]
                        if mine:
                            o = s.delete(owner, mine)
                            desc.append('delete(%s,%s)->%s' % (owner, mine, o.etype))
                        for u in s.users:            # ... and everybody snapshots the same data again
                            o = s.snapshot(u, files)
                            desc.append('snapshot-again(%s)->%s' % (u, o.etype))
                    restore_all(s, desc)
                    traces.append(s.trace(extra={'history': desc, 'opts': {'cache': cache}}))
                    run.case(('stale', g, seed, cache))
    return traces


def many_snapshots(run, graphs, seeds, n=13):
    """more snapshots than ten times the concurrency (one worker here): loaders that work in batches, listings of several pages"""
    from .. import harness, repodrv
    traces = []
    for g in graphs:
        for seed in seeds:
            with harness.scratch() as d:
                s = repodrv.Session(g, d, seed=seed, concurrent=1, cache=[None, '__private__'][seed % 2])
                r = s.rng
                desc = []
                for i in range(n):
                    u = s.users[i % len(s.users)]
                    f = s.write_file('m%02d.bin' % i, r.randbytes(r.choice([150, 400, 900])))
                    o = s.snapshot(u, [f])
                    desc.append('snapshot(%s, m%02d)->%s' % (u, i, o.etype))
                for u in s.users:
                    o = s.clean(u)                      # nothing is garbage: must be a no-op
                    desc.append('clean(%s)->%s' % (u, o.etype))
                for u in s.users:
                    rd = s.readable(u)
                    if rd:
                        o = s.delete(u, [rd[len(rd) // 2]])
                        desc.append('delete(%s)->%s' % (u, o.etype))
                        s.ls(u)
                restore_all(s, desc)
                traces.append(s.trace(extra={'history': desc, 'opts': {'snapshots': n, 'concurrent': 1}}))
                run.case(('many-snapshots', g, seed, n))
    return traces


def main(run):
    quick = run.tier == 'quick'
    rc.design(run, ['mixed', 'shared'] if quick else ['plain', 'same', 'shared', 'indep', 'mixed'],
              mutants=['nokeep', 'keepReadableOnly'] if quick else ['nokeep', 'keepReadableOnly', 'cleanInverted', 'chunksFirst', 'earlyCommit'],
              big=False, coverage=not quick)
    rc.l2(run, ['mixed', 'shared', 'plain'] if quick else ['plain', 'same', 'shared', 'indep', 'mixed'],
          num=12 if quick else 150, depth=45, seed=run.seed + 1, kinds=('missing-chunk', 'missing-snapshot', 'command-failed'))
    rc.l2_interleaved(run, ['shared', 'mixed'] if quick else ['plain', 'same', 'shared', 'indep', 'mixed'], 6 if quick else 80, 40, run.seed + 21,
                      kinds=('missing-chunk', 'missing-snapshot', 'command-failed'))
    traces = rc.histories(run, rc.ALL_GRAPHS, range(run.seed * 100, run.seed * 100 + (3 if quick else 40)), 14 if quick else 30, post=restore_all)
    traces += rc.histories(run, ['shared', 'mixed'], range(run.seed * 100 + 50, run.seed * 100 + (52 if quick else 70)), 12 if quick else 25,
                           flavour='async', concurrent=2, post=restore_all)
    traces += rc.histories(run, ['plain', 'shared'] if quick else rc.ALL_GRAPHS, range(run.seed * 100 + 90, run.seed * 100 + 90 + (1 if quick else 8)), 12 if quick else 25,
                           flavour='s3', post=restore_all)      # over the real S3 adapter, paged listings
    traces += many_snapshots(run, ['shared', 'plain'] if quick else rc.ALL_GRAPHS, range(run.seed * 10, run.seed * 10 + (1 if quick else 3)), 13 if quick else 34)
    traces += stale_knowledge(run, ['shared', 'plain', 'mixed'] if quick else rc.ALL_GRAPHS, range(run.seed * 10, run.seed * 10 + (1 if quick else 4)))
    traces += stale_knowledge(run, ['shared'] if quick else ['shared', 'mixed'], range(run.seed * 10 + 7, run.seed * 10 + 8), wide=True, caches=('__private__',))
    rc.validate(run, traces, CLAUSES, label='c02.histories')
    run.coverage['rule'] = ('a case is one command history (key graph x seed), one stale-knowledge scenario (key graph x cache arrangement) or one replayed TLC behaviour; non-trivial = '
                            'more than 10 backend events / more than 2 replayed commands; distinct by the command sequence')
    run.assumptions += ['destructive commands are not overlapped with other commands (README)',
                        'projection by the independent codec rv/refcodec.py', 'MemBackend is a faithful object store (C13 checks the real adapters)']


def replay(run, path):
    main(run)
