"""C03 - interrupted commands leave a consistent, usable repository.

design : Repo.tla with Crash(p) and Fail(p) enabled at every step: Safety in every state, CleanExact after the next clean;
         spec mutants chunksFirst / earlyCommit must be caught. LocalFS.tla: no visible partial file at any syscall prefix.
(i)    : real snapshot / delete / clean executions on the instrumented backend under varying completion orders; EVERY prefix
         of the mutation log is rebuilt as a crash state; the trace [history, events up to the crash, crash, follow-up
         commands] is validated by RepoTrace.tla: Safety at the crash point, then list / restore of every visible snapshot /
         a new snapshot / clean must succeed and clean must leave exactly the referenced chunks.
         Single permanent failures: each backend call of the command in turn raises for good.
(ii)   : the same commands on the real local backend under strace; the syscall log is validated against LocalFS.tla at
         every prefix (temp file + atomic rename, nothing partial visible) and sampled prefixes are materialised.
"""
from . import repo_common as rc
from .. import harness, repodrv

LEVEL = 'fault_enumeration'
CLAUSES = ['P:Safety', 'P:CommitComplete', 'P:SnapshotFaithful', 'P:SnapshotWellFormed', 'P:RestoreOk', 'P:RestoreSelect',
           'P:RestoreNothingElse', 'P:ListOk', 'P:ListSnapshotsSet', 'P:CleanExact', 'P:OthersUntouched', 'P:CommandSucceeds', 'P:Terminates']


def follow_ups(f, tag):
    """what a user does after an interrupted command: look, restore everything, back up again, clean"""
    f.ctx = tag
    for u in f.users:
        f.ls(u)
        f.restore(u)
    for u in f.users:
        for s in f.readable(u)[:3]:
            f.restore(u, '^%s$' % f.snapname[s])
    u = f.users[f.rng.randrange(len(f.users))]
    p = f.write_file('after_crash_%d.bin' % f.rng.randrange(10 ** 6), f.rng.randbytes(f.rng.randrange(1, 700)))
    f.snapshot(u, [p])
    seen = set()
    for u in f.users:
        if f.fam[u] not in seen:
            seen.add(f.fam[u])
            f.clean(u)
    for u in f.users:
        f.restore(u)
    f.ctx = None


def prepare(g, d, seed, flavour, concurrent, steps):
    s = repodrv.Session(g, d / 'base', seed=seed, flavour=flavour, concurrent=concurrent, foreign={'notes.txt': b'keep me'})
    desc = repodrv.random_history(s, steps, reads=False, p_clean=0.08)
    return s, desc


def victim(s, kind, gate):
    """run the command that is going to be interrupted; returns description"""
    r = s.rng
    u = r.choice(s.users)
    be = s.world.backend(gate=gate)
    if kind == 'snapshot':
        c = repodrv.Content(r, nblocks=8)
        files = [s.write_file('v%d.bin' % i, c.make() + r.randbytes(r.randrange(0, 300))) for i in range(r.randrange(1, 5))]
        o = s.snapshot(u, files, backend=be)
    elif kind == 'delete':
        us = [x for x in s.users if s.readable(x)]
        if not us:
            return None
        u = r.choice(us)
        rd = s.readable(u)
        D = r.sample(rd, r.randrange(1, min(3, len(rd)) + 1))
        o = s.delete(u, D, backend=be)
    else:
        o = s.clean(u, backend=be)
    return '%s(%s)->%s' % (kind, u, o.etype)


GATES = {'jitter': lambda s: repodrv.Jitter(s.rng), 'slow-snapshot-objects': lambda s: repodrv.DelayPrefix('snapshots/'),
         'slow-chunk-objects': lambda s: repodrv.DelayPrefix('data/')}


def crash_points(run, g, seed, kind, flavour, concurrent, quick, order='jitter'):
    traces = []
    with harness.scratch() as d:
        s, desc = prepare(g, d, seed, flavour, concurrent, 6 if quick else 10)
        if kind == 'clean':
            # leave orphans so that clean has something to do: an interrupted snapshot
            be = s.world.backend(gate=repodrv.KillAfter(3))
            c = repodrv.Content(s.rng)
            s.snapshot(s.users[0], [s.write_file('orph%d.bin' % i, c.make() + s.rng.randbytes(200)) for i in range(3)], backend=be)
        n0 = len(s.store.events) - s.mark
        v = victim(s, kind, GATES[order](s))
        if v is None:
            return traces
        evs = s.store.events[s.mark + n0:]
        muts = [i for i, e in enumerate(evs) if e[0] in ('put', 'del')]
        # crash immediately before each mutation, and after the last one but before the command returns
        cuts = [n0 + i for i in muts] + ([n0 + muts[-1] + 1] if muts else [])
        if quick and len(cuts) > 7:
            cuts = cuts[:3] + cuts[len(cuts) // 2:len(cuts) // 2 + 1] + cuts[-3:]
        for k, cut in enumerate(cuts):
            f = s.fork_at(cut, d / ('fork%d' % k))
            follow_ups(f, 'after crash')
            t = f.trace(extra={'history': desc + [v, 'CRASH before event %d of %d' % (cut - n0, len(evs))], 'opts': {'kind': kind, 'cut': cut - n0, 'order': order}})
            traces.append(t)
            run.case((g, seed, kind, flavour, order, cut - n0), nontrivial=True)
    return traces


def permanent_failures(run, g, seed, kind, flavour, concurrent, quick):
    traces = []
    n = 1
    while n < (12 if quick else 60):
        with harness.scratch() as d:
            s, desc = prepare(g, d, seed, flavour, concurrent, 5 if quick else 8)
            gate = repodrv.FailNth(n)
            s.fault_next = True
            v = victim(s, kind, gate)
            if v is None or gate.fired is None:
                break
            follow_ups(s, 'after permanent failure')
            t = s.trace(extra={'history': desc + [v + ' with permanent failure of call #%d %s' % (n, gate.fired[0])], 'opts': {'kind': kind, 'fail': n}})
            traces.append(t)
            run.case((g, seed, kind, 'fail', n))
        n += 1 if not quick else 2
    return traces


def main(run):
    quick = run.tier == 'quick'
    rc.design(run, ['mixed', 'plain'] if quick else ['plain', 'same', 'shared', 'indep', 'mixed'],
              mutants=['chunksFirst', 'earlyCommit'], coverage=not quick)
    traces = []
    combos = [('shared', 'snapshot', 'plain', 3), ('mixed', 'delete', 'plain', 3), ('indep', 'clean', 'async', 2), ('plain', 'snapshot', 'async', 2),
              ('same', 'delete', 'async', 4)]
    if not quick:
        combos = [(g, k, fl, c) for g in rc.ALL_GRAPHS for k in ('snapshot', 'delete', 'clean') for fl, c in (('plain', 3), ('async', 2), ('plain', 1))]
    for i, (g, kind, fl, conc) in enumerate(combos):
        for seed in range(run.seed * 100 + i, run.seed * 100 + i + 1):
            for order in (['jitter', 'slow-snapshot-objects'] if quick else list(GATES)):
                if order == 'slow-snapshot-objects' and kind == 'clean':
                    continue
                traces += crash_points(run, g, seed, kind, fl, conc, quick, order)
    pf = (combos[:3] + [('shared', 'snapshot', 'plain', 1), ('plain', 'snapshot', 'async', 1)]) if quick else combos[::3]
    for i, (g, kind, fl, conc) in enumerate(pf):
        traces += permanent_failures(run, g, run.seed * 100 + 40 + i, kind, fl, conc, quick)
    rc.validate(run, traces, CLAUSES, label='c03.crash-points')
    from . import c03_local
    c03_local.run_local(run, quick)
    run.coverage['rule'] = ('a case is one crash point: a prefix of the backend mutation log of one real command execution (after a random '
                            'history), followed by list / restore / snapshot / clean; or one permanent failure of the n-th backend call; or one '
                            'syscall prefix of a local-backend upload')
    run.assumptions += ['crash = the process disappears between two backend mutations; nothing it had not yet sent takes effect',
                        'the local backend is observed with strace (open/write/rename/unlink)']


def replay(run, path):
    main(run)
