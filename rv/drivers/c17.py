"""C17 - accepted settings always yield a usable repository and working keys.

spec   : Settings.tla - the settings lattice (palettes per group: in range, boundary, out of range, mistyped, unknown) with Valid, and
         the add-key chains; TLC enumerates every point.
replay : each point runs through the real init on a fresh instrumented backend. Rejected => no backend mutation. Accepted => a FRESH
         Repository + backend object unlocks with (config from the backend, emitted key, password), snapshots a small tree and restores it
         byte-identically. Chains of add-key (independent / shared / clone x KDF palette): every produced key works, and the full
         (key file x password) unlock matrix is recorded. SettingsTrace.tla decides.
"""
import copy
import os
import random

from .. import harness, membackend, tlc

LEVEL = 'model_checking'
FK = dict(harness.FAST_KDF)

H = {'h-default': None, 'h-blake2b-32': {'name': 'blake2b', 'length': 32}, 'h-blake2b-64': {'name': 'blake2b', 'length': 64}, 'h-blake2b-1': {'name': 'blake2b', 'length': 1},
     'h-blake2b-65': {'name': 'blake2b', 'length': 65}, 'h-blake2b-0': {'name': 'blake2b', 'length': 0}, 'h-blake2b-neg': {'name': 'blake2b', 'length': -1},
     'h-sha2-256': {'name': 'sha2', 'bits': 256}, 'h-sha2-255': {'name': 'sha2', 'bits': 255}, 'h-sha3-512': {'name': 'sha3', 'bits': 512}, 'h-sha3-224': {'name': 'sha3', 'bits': 224},
     'h-unknown-name': {'name': 'md5'}, 'h-blake2b-str': {'name': 'blake2b', 'length': '32'}, 'h-unknown-param': {'name': 'sha2', 'size': 256}}
C = {'c-default': {'min_length': 32, 'max_length': 128}, 'c-64-256': {'min_length': 64, 'max_length': 256}, 'c-128-128': {'min_length': 128, 'max_length': 128},
     'c-min-gt-max': {'min_length': 300, 'max_length': 200}, 'c-min-0': {'min_length': 0, 'max_length': 64}, 'c-min-neg': {'min_length': -1, 'max_length': 64},
     'c-max-str': {'min_length': 16, 'max_length': '1000'}, 'c-5-6': {'min_length': 5, 'max_length': 6}, 'c-unknown-name': {'name': 'rabin'},
     'c-float': {'min_length': 16.5, 'max_length': 64}, 'c-4-4': {'min_length': 4, 'max_length': 4}}
E = {'e-none': None, 'e-default': {'kdf': FK}, 'e-chacha': {'kdf': FK, 'cipher': {'name': 'chacha20_poly1305'}}, 'e-aes-128': {'kdf': FK, 'cipher': {'name': 'aes_gcm', 'key_bits': 128}},
     'e-aes-192': {'kdf': FK, 'cipher': {'name': 'aes_gcm', 'key_bits': 192}}, 'e-aes-100': {'kdf': FK, 'cipher': {'name': 'aes_gcm', 'key_bits': 100}},
     'e-kdf-n3': {'kdf': {'n': 3}}, 'e-kdf-r-str': {'kdf': {'n': 4, 'r': '8'}}, 'e-nonce-64': {'kdf': FK, 'cipher': {'name': 'aes_gcm', 'nonce_bits': 64}},
     'e-nonce-0': {'kdf': FK, 'cipher': {'name': 'aes_gcm', 'nonce_bits': 0}}, 'e-unknown-group': {'kdf': FK, 'mac': {'name': 'blake2b'}},
     'e-kdf-unknown-param': {'kdf': {'n': 4, 'rounds': 3}}, 'e-cipher-unknown': {'kdf': FK, 'cipher': {'name': 'rot13'}}, 'e-kdf-n-2': {'kdf': {'n': 2}},
     'e-kdf-blake2b': {'kdf': {'name': 'blake2b'}}, 'e-kdf-blake2b-chacha': {'kdf': {'name': 'blake2b'}, 'cipher': {'name': 'chacha20_poly1305'}},
     'e-kdf-blake2b-aes-128': {'kdf': {'name': 'blake2b'}, 'cipher': {'name': 'aes_gcm', 'key_bits': 128}},
     'e-nonce-128-aes-192': {'kdf': FK, 'cipher': {'name': 'aes_gcm', 'key_bits': 192, 'nonce_bits': 128}}}
K = {'k-default': FK, 'k-n8': {'n': 8}, 'k-r4': {'n': 4, 'r': 4}, 'k-blake2b': {'name': 'blake2b'}}


def build(h, c, e, x):
    s = {}
    if H[h] is not None:
        s['hashing'] = copy.deepcopy(H[h])
    s['chunking'] = copy.deepcopy(C[c])
    s['encryption'] = copy.deepcopy(E[e])
    if x == 'x-unknown-group':
        s['compression'] = {'name': 'zstd'}
    if x == 'x-hashing-not-a-mapping':
        s['hashing'] = 'sha2'
    return s


def fresh_roundtrip(store, user, d, rng, tag):
    """a new process: new backend object, new Repository; unlock, snapshot a tree, restore it, compare"""
    w = harness.World(store=store, concurrent=2)
    w.users['u'] = user
    tree = {'a.bin': rng.randbytes(6000), 'e/empty': b'', 'e/z.txt': bytes(300), 'b.bin': rng.randbytes(5)}
    src = d / ('src' + tag)
    harness.write_tree(src, tree)
    o = w.snapshot('u', [src])
    if not o.ok:
        return False, False, 'snapshot: %r' % o.exc
    tgt = d / ('tgt' + tag)
    tgt.mkdir()
    o2 = w.restore('u', tgt, snapshot_regex='^%s$' % o.value.name)
    if not o2.ok:
        return True, False, 'restore: %r' % o2.exc
    got = {k: v[0] for k, v in harness.read_tree(tgt).items()}
    want = {os.path.relpath(os.path.join(str(src), k), '/'): v for k, v in tree.items()}
    return True, got == want, '~' if got == want else 'restored tree differs'


def long_pw(tag):
    """a password of exactly 64 bytes (the key-size limit of BLAKE2b: the boundary at which key material could get cut off)"""
    return (b'pw-' + tag + b'-').ljust(64, b'#')


def impostors(real):
    """wrong passwords that are close to the real one: longer, shorter, different only in the last byte"""
    return [('real+1', real + b'!'), ('real+many', real + b' and a long tail' * 5), ('real-1', real[:-1]), ('last-byte', real[:-1] + bytes([real[-1] ^ 1]))]


def impostor_events(w, store, keyname, key, real):
    evs = []
    for desc, pw in impostors(real):
        tmp = harness.User('x', pw, key, None)
        o = w.command(tmp, lambda r: r.list_snapshots(header=False), cache=None)
        evs.append({'a': 'unlock', 'key': keyname, 'pw': 'impostor:' + desc, 'ok': bool(o.ok), 'own': False, 'detail': o.etype})
    return evs


def init_point(h, c, e, x, valid, d, rng):
    store = membackend.Store()
    w = harness.World(store=store, concurrent=2)
    settings = build(h, c, e, x)
    pw = b'pw-' + rng.randbytes(3).hex().encode()
    if rng.random() < 0.5 or 'blake2b' in e:
        pw = long_pw(rng.randbytes(3).hex().encode())
    if 'blake2b' in e and h != 'h-default':
        # ... and BEYOND the key-size limit of BLAKE2b (a long pass phrase): refusing it is fine, accepting it means every bit of it must count
        pw = pw + b' and then some more words of a long pass phrase'
    ev = {'a': 'init', 'point': [h, c, e, x], 'valid': bool(valid), 'accepted': True, 'mutations': 0, 'unlock': False, 'roundtrip': False, 'detail': '~'}
    # the key is taken from the file replicat writes (--key-output-file); for every other point a LONGER file is already there
    # (an old key, a note): what counts is what is on disk afterwards
    kf = d / 'owner.key'
    mode = rng.choice(['print', 'new-file', 'over-longer-file'])
    if mode == 'over-longer-file':
        kf.write_bytes(b'{"an old key file": "' + b'x' * 3000 + b'"}')
    ev['keyfile'] = mode
    try:
        user = w.init('o', pw, settings, key_file=None if mode == 'print' else str(kf))
    except BaseException as ex:  # noqa: BLE001
        ev['accepted'] = False
        ev['detail'] = '%s: %s' % (type(ex).__name__, str(ex)[:100])
        ev['mutations'] = len(store.mutlog)
        return ev
    ev['mutations'] = len(store.mutlog)
    try:
        un, rt, detail = fresh_roundtrip(store, user, d, rng, '0')
    except BaseException as ex:  # noqa: BLE001
        un, rt, detail = False, False, '%s: %s' % (type(ex).__name__, str(ex)[:100])
    ev.update(unlock=bool(un), roundtrip=bool(rt), detail=detail)
    if not un:
        # distinguish "cannot even unlock" from "snapshot failed"
        w2 = harness.World(store=store, concurrent=2)
        w2.users['u'] = user
        o = w2.list_snapshots('u')
        ev['unlock'] = bool(o.ok)
    if user.key is not None and ev['unlock']:
        return [ev] + impostor_events(harness.World(store=store, concurrent=2), store, 'owner', user.key, pw)
    return ev


def chain_events(chain, d, rng):
    store = membackend.Store()
    w = harness.World(store=store, concurrent=2)
    w.init('k0', long_pw(b'0'), harness.settings(encrypted=True, min_length=32, max_length=128))
    evs = []
    names = ['k0']
    for i, (kind, kdf) in enumerate(chain):
        frm = names[-1]
        nm = 'k%d' % (i + 1)
        before = len(store.mutlog)
        ev = {'a': 'addkey', 'link': [kind, kdf], 'accepted': True, 'mutations': 0, 'roundtrip': False, 'detail': '~', 'valid': True}
        kf = d / ('%s.key' % nm)
        mode = rng.choice(['print', 'new-file', 'over-longer-file'])
        if mode == 'over-longer-file':
            kf.write_bytes(w.users[frm].key + b' ' * 200)        # e.g. replacing a key file in place: the old, longer content is there
        ev['keyfile'] = mode
        try:
            w.add_key(frm, nm, long_pw(b'%d' % (i + 1)) + (b' and a few more words' if kdf == 'k-blake2b' and i % 2 else b''), shared=(kind == 'shared'), clone=(kind == 'clone'), settings_={'encryption': {'kdf': dict(K[kdf])}},
                      key_file=None if mode == 'print' else str(kf))
        except BaseException as ex:  # noqa: BLE001
            ev.update(accepted=False, detail='%s: %s' % (type(ex).__name__, str(ex)[:100]), mutations=len(store.mutlog) - before)
            evs.append(ev)
            break
        try:
            un, rt, detail = fresh_roundtrip(store, w.users[nm], d, rng, str(i + 1))
        except BaseException as ex:  # noqa: BLE001
            un, rt, detail = False, False, '%s: %s' % (type(ex).__name__, str(ex)[:100])
        ev.update(roundtrip=bool(un and rt), detail=detail)
        evs.append(ev)
        names.append(nm)
    # unlock matrix
    for kn in names:
        for pn in names:
            tmp = harness.User('x', w.users[pn].password, w.users[kn].key, None)
            o = w.command(tmp, lambda r: r.list_snapshots(header=False), cache=None)
            evs.append({'a': 'unlock', 'key': kn, 'pw': pn, 'ok': bool(o.ok), 'own': w.users[pn].password == w.users[kn].password, 'detail': o.etype})
    for kn in names:
        evs += impostor_events(w, store, kn, w.users[kn].key, w.users[kn].password)
    return evs


def classify(e):
    if e.get('a') == 'init':
        h, c, en, x = e['point']
        if h == 'h-blake2b-1' and e.get('accepted') and e.get('unlock'):
            # whatever the other groups are: with a 1-byte digest the round trip goes wrong because distinct chunks collide
            return 'digest so short that distinct chunks collide'
        if h in ('h-blake2b-65', 'h-blake2b-0', 'h-blake2b-neg', 'h-blake2b-str'):
            return 'blake2b digest length is not validated at init'
        if c in ('c-min-0', 'c-min-neg', 'c-max-str', 'c-float'):
            return 'chunker lengths are not validated at init'
    return 'any'


def main(run):
    quick = run.tier == 'quick'
    rng = random.Random(run.seed + 17)
    text = open(os.path.join(tlc.SPEC_DIR, 'MC_Settings.cfg')).read()
    if not quick:
        text = text.replace('MaxChain = 2', 'MaxChain = 3')
    res = tlc.run_tlc('Settings', 'mc.cfg', cfg_text=text, workers=1, timeout=1200)
    if not res.completed:
        raise tlc.MachineryError('settings enumeration failed: ' + res.out[-1200:])
    points, chains = res.prints('S'), [c[0] for c in res.prints('K')]
    # design model of the keys: own-password-only unlock for every chain of add-key; the wrong wrapping key must be caught
    kbase = open(os.path.join(tlc.SPEC_DIR, 'MC_Keys.cfg')).read()
    kres = tlc.check_design('Keys', 'MC_Keys.cfg')
    tlc.check_design('Keys', 'mut.cfg', cfg_text=kbase.replace('Mutant = "none"', 'Mutant = "wrongWrappingKey"'), expect_violation='OwnPasswordOnly')
    run.add(keys_model_states=kres.distinct)
    run.add(states=res.distinct, transitions=res.generated, points_enumerated=len(points), chains_enumerated=len(chains))
    base = ('h-default', 'c-default', 'e-default', 'x-none')
    # every single-group variation around the default point is always run; the rest of the product is sampled
    single = [p for p in points if sum(1 for a, b in zip(p[:4], base) if a != b) <= 1]
    single += [p for p in points if p[2] == 'e-none' and sum(1 for a, b in zip(p[:4], base) if a != b) <= 2]
    rest = [p for p in points if p not in single]
    rng.shuffle(rest)
    chosen = single + rest[:40 if quick else 1500]
    rng.shuffle(chains)
    chains = chains[:12 if quick else 300]
    traces = []
    with harness.scratch() as d:
        for k, (h, c, e, x, valid) in enumerate(chosen):
            sub = d / ('p%d' % k)
            sub.mkdir()
            evs_ = init_point(h, c, e, x, valid, sub, rng)
            traces.append({'events': evs_ if isinstance(evs_, list) else [evs_]})
            run.case(('init', h, c, e, x), nontrivial=True)
        for k, ch in enumerate(chains):
            sub = d / ('c%d' % k)
            sub.mkdir()
            traces.append({'events': chain_events([tuple(x) for x in ch], sub, rng)})
            run.case(('chain', tuple(map(tuple, ch))))

    def on_reject(t, idx, clause):
        e = t['events'][idx - 1]
        fresh = run.violation(clause, classify(e), {k: e[k] for k in e if k != 'waive'})
        return not fresh
    final, states = tlc.validate_loop('SettingsTrace', 'Trace_Repo.cfg', traces, on_reject, rounds=50)
    events = [e for t in traces for e in t['events']]
    for i, (idx, clause, drift) in final.items():
        if drift != 'ok':
            run.note_drift(drift)
    run.add(traces_validated_against_impl=len(events), accepted=sum(1 for e in events if e['a'] == 'init' and e['accepted']),
            rejected=sum(1 for e in events if e['a'] == 'init' and not e['accepted']))
    first = next(e for e in events if e['a'] == 'init' and e['accepted'])
    run.sample({k: first[k] for k in ('a', 'point', 'valid', 'accepted', 'mutations', 'unlock', 'roundtrip', 'detail')})
    run.coverage['rule'] = ('a case is one point of the settings lattice enumerated by TLC (hashing x chunking x encryption x extra groups; all single-group '
                            'variations around the default, the rest sampled by seed) run through init + a fresh-process round trip, or one add-key chain with its unlock matrix')
    run.assumptions += ['scrypt work factors are kept tiny for speed', 'usable = unlock + snapshot + restore of a small tree in a fresh Repository object']


def replay(run, path):
    main(run)
