"""C05 - an encrypted repository reveals no plaintext at rest.

design : AtRest.tla - symbolic term model of everything written and of the observer's knowledge closure; NoSecretKnown and NonceUnique;
         mutants nameIsDigest, privatePlain, tableKeyFromPublic, nonceCounter.
binding: real init, add-key (independent / shared / clone), snapshot, delete, clean with canary secrets (marked file contents, file names,
         notes, passwords). Every object name and byte written to the backend, every key file and the stdout of init / add-key is captured
         (also objects later deleted: the observer saw them); the independent reader turns each into verified relations and (key, nonce)
         pairs; the raw bytes and names are scanned for every canary and every secret atom (raw, hex, base64, JSON-escaped).
         AtRestTrace.tla validates the whole history, nonce uniqueness across the run included.
"""
import base64
import hashlib
import json
import os
import random

from . import c14
from .. import harness, membackend, refcodec, repodrv, tlc

LEVEL = 'other'


def forms(secret):
    """the shapes in which a byte string could leak"""
    out = {secret, secret.hex().encode(), secret.hex().upper().encode(), base64.standard_b64encode(secret), base64.urlsafe_b64encode(secret)}
    try:
        out.add(json.dumps(secret.decode('utf-8'))[1:-1].encode())
    except UnicodeDecodeError:
        pass
    # base64 at the two other alignments (a secret embedded in a longer encoded string)
    for pad in (b'x', b'xx'):
        enc = base64.standard_b64encode(pad + secret + b'yy')
        out.add(enc[4:-4])
    return {f for f in out if len(f) >= 8}


def scan(blob, needles):
    return sorted({label for label, fs in needles.items() if any(f in blob for f in fs)})


def nonces_of(kind, loc, blob, keys_by_user, encrypted):
    """[[key id, nonce hex, ciphertext id]] for every ciphertext inside the item (the reader knows the layout)"""
    if not encrypted:
        return []
    k = next(iter(keys_by_user.values()))
    nb = k.cipher.nonce_bytes
    out = []

    def cid(ct):
        return hashlib.sha1(ct).hexdigest()[:16]
    if kind == 'chunk':
        # key = Kdf(shared, digest): the digest is not recoverable from the name alone; the key id is the object name (1:1 with the digest)
        out.append(['chunk-key:' + loc, blob[:nb].hex(), cid(blob)])
    elif kind == 'snapshot':
        try:
            body = refcodec.loads(blob)
            out.append(['table-key:' + k.hash(body['data']).hex()[:24], body['chunks'][:nb].hex(), cid(body['chunks'])])
            owner = '?'
            for u, ku in keys_by_user.items():
                try:
                    ku.cipher.decrypt(body['data'], ku.userkey)
                    owner = hashlib.sha1(ku.userkey).hexdigest()[:12]
                    break
                except refcodec.FormatError:
                    continue
            out.append(['user-key:' + owner, body['data'][:nb].hex(), cid(body['data'])])
        except Exception:  # noqa: BLE001
            pass
    return out


def one_run(run, graph, seed, cipher, hashing):
    rng = random.Random(seed)
    canary = lambda tag: ('CANARY-%s-%s' % (tag, rng.randbytes(6).hex())).encode()  # noqa: E731
    with harness.scratch() as d:
        s = repodrv.Session(graph, d, seed=seed, cipher=cipher, hashing=hashing, min_length=64, max_length=256)
        needles = {}
        files = []
        for i in range(3):
            body = canary('content%d' % i) + rng.randbytes(300) + canary('content%db' % i) + rng.randbytes(200)
            name = 'dir-%s/file-%s.txt' % (canary('dirname%d' % i).decode(), canary('filename%d' % i).decode())
            files.append(s.write_file(name, body))
            for part in (body[:22], body[-222:-200], name.split('/')[0].encode()[4:], name.split('/')[1].encode()[5:-4]):
                needles.setdefault('file content or name', set()).update(forms(part))
        # the same new content many times in a row inside one snapshot (repeated records, sparse runs): several workers hold copies of one
        # chunk that is not stored yet
        block = canary('repeated') + rng.randbytes(240)
        files.append(s.write_file('repeated-%s.bin' % canary('rname').decode()[-8:], rng.randbytes(150) + block * 14 + rng.randbytes(90)))
        needles.setdefault('file content or name', set()).update(forms(block[:24]))
        note = canary('note').decode()
        needles['note'] = forms(note.encode())
        empty = s.write_file('only-empty-%s' % canary('ename').decode()[-8:], b'')
        for u in s.users:
            s.snapshot(u, files, note=note)
            s.snapshot(u, files, note=note)                 # unchanged data again, from a fresh process: same number of chunks
            s.snapshot(u, [empty])                           # no chunk at all: the private part is the first ciphertext of the process
            s.snapshot(u, [empty], note=note)
            files[0] = s.write_file('extra-%s.bin' % canary('xname').decode()[-10:], canary('xcontent') + rng.randbytes(120))
            s.snapshot(u, files[:1])
        s.delete(s.users[0], s.readable(s.users[0])[:1])
        s.clean(s.users[0])
        s.sync_defs()
        # secrets the reader legitimately holds
        for u, k in s.holders.items():
            needles['password of ' + u] = forms(s.world.users[u].password)
            needles['user key of ' + u] = forms(k.userkey)
            for nm in ('shared_key', 'mac_params', 'chunker_params', 'shared_kdf_params'):
                needles['%s (%s)' % (nm, u)] = forms(k.private[nm])
        for dfn in s.defs:
            for dg in dfn['digests']:
                needles.setdefault('content digest', set()).update(forms(dg))
        # mtime values of the snapshotted files
        for f in files:
            needles.setdefault('metadata (mtime)', set()).update(forms(str(f.stat().st_mtime_ns).encode()))
        # every object the observer ever saw: all puts of the run (deleted ones included) + init-time objects
        seen_objs = dict(s.init_objs)
        history = [(n, b) for n, b in s.init_objs.items()]
        for kind, name, data, _ in s.store.events:
            if kind == 'put':
                history.append((name, data))
        final_objs = dict(s.store.objs)
        allobjs = {}
        for n, b in history:
            allobjs.setdefault(n, b)
        key_files = {u: (s.world.users[u].key, s.world.users[u].password) for u in s.users}
        # relations are established on the union of everything ever written (chunks deleted later still have to decode)
        union = dict(allobjs)
        # one pass per key family (an item belongs to the family whose keys verify it)
        rel = {}
        fams = {}
        for u, k in s.holders.items():
            fams.setdefault(k.family_id, {})[u] = k
        for fam, hs in fams.items():
            for e in c14.decode_all(union, hs, {u: key_files[u] for u in hs}, True):
                if len(e['verified']) >= len(rel.get(e['name'], {'verified': []})['verified']):
                    rel[e['name']] = e
        events = []
        for n, b in history:
            kind = 'chunk' if n.startswith('data/') else 'snapshot' if n.startswith('snapshots/') else 'config' if n == 'config' else 'other'
            key = n[:30] if kind != 'config' else 'config'
            ver = list(rel.get(key, {}).get('verified', []))
            if kind == 'snapshot':
                try:
                    body = refcodec.loads(b)
                    if set(body) == {'chunks', 'data'} and all(isinstance(v, bytes) for v in body.values()):
                        ver.append('onlyCiphertextFields')
                except Exception:  # noqa: BLE001
                    pass
            events.append({'kind': kind, 'name': n[:40], 'verified': sorted(set(ver)), 'nonces': nonces_of(kind, n, b, s.holders, True),
                           'canaries': scan(n.encode() + b'\x00' + b, needles)})
        for u, (kf, pw) in key_files.items():
            ver = list(rel.get('key of ' + u, {}).get('verified', []))
            ko = refcodec.loads(kf)
            if set(ko) == {'kdf', 'kdf_params', 'private'} and isinstance(ko['private'], bytes):
                ver.append('onlyPublicKdfFields')
            k = s.holders[u]
            events.append({'kind': 'key', 'name': 'key file of ' + u, 'verified': sorted(set(ver)),
                           'nonces': ([['user-key:' + hashlib.sha1(k.userkey).hexdigest()[:12], ko['private'][:k.cipher.nonce_bytes].hex(), hashlib.sha1(ko['private']).hexdigest()[:16]]]
                                      if isinstance(ko.get('private'), bytes) else []),
                           'canaries': scan(kf, needles)})
        # stdout of init / add-key (captured by the harness)
        for out in getattr(s.world, 'stdout_log', []):
            events.append({'kind': 'stdout', 'name': 'stdout', 'verified': [], 'nonces': [], 'canaries': scan(out.encode(), needles)})
        run.case((graph, seed, str(cipher), str(hashing)), nontrivial=len(events) > 10)
        return {'graph': graph, 'seed': seed, 'cipher': cipher, 'hashing': hashing, 'events': events}


def main(run):
    quick = run.tier == 'quick'
    base = open(os.path.join(tlc.SPEC_DIR, 'MC_AtRest.cfg')).read()
    res = tlc.check_design('AtRest', 'mc.cfg', cfg_text=base if not quick else base.replace('Bound', 'Bound'), timeout=3000)
    run.add(states=res.distinct, transitions=res.generated)
    caught = []
    for m, inv in (('nameIsDigest', 'NoSecretKnown'), ('privatePlain', 'NoSecretKnown'), ('tableKeyFromPublic', 'NoSecretKnown'), ('nonceCounter', 'NonceUnique')):
        tlc.check_design('AtRest', 'mut.cfg', cfg_text=base.replace('Mutant = "none"', 'Mutant = "%s"' % m), expect_violation=inv)
        caught.append(m)
    run.add(spec_mutants_caught=caught)
    grid = [('shared', None, None), ('mixed', {'name': 'chacha20_poly1305'}, {'name': 'sha2', 'bits': 256}), ('clone', {'name': 'aes_gcm', 'key_bits': 128}, {'name': 'sha3', 'bits': 512}),
            ('indep', {'name': 'aes_gcm', 'key_bits': 192}, {'name': 'blake2b', 'length': 32}), ('same', None, {'name': 'sha2', 'bits': 512}),
            ('chain', {'name': 'aes_gcm', 'nonce_bits': 128}, None), ('shared', {'name': 'aes_gcm', 'key_bits': 128, 'nonce_bits': 64}, {'name': 'blake2b', 'length': 20})]
    traces = []
    for i, (g, cipher, hashing) in enumerate(grid):
        for rep in range(1 if quick else 8):
            traces.append(one_run(run, g, run.seed * 100 + i * 10 + rep, cipher, hashing))

    def on_reject(t, idx, clause):
        e = t['events'][idx - 1]
        fresh = run.violation(clause, 'any', {'graph': t['graph'], 'cipher': t['cipher'], 'hashing': t['hashing'], 'item': e['kind'], 'name': e['name'],
                                              'canaries': e['canaries'], 'verified': e['verified']})
        return not fresh
    final, states = tlc.validate_loop('AtRestTrace', 'Trace_Repo.cfg', traces, on_reject)
    nobj = sum(len(t['events']) for t in traces)
    run.add(traces=len(traces), items_decoded=nobj,
            explanation='%d items (object names and bodies incl. later deleted ones, key files, stdout) written by real init / add-key / snapshot / delete / clean on %d '
                        'encrypted repositories were decoded by the independent reader into verified relations and (key, nonce) pairs and scanned for canaries; '
                        'AtRestTrace.tla validated every item and nonce uniqueness over each whole run; AtRest.tla proves the layout leak-free symbolically' % (nobj, len(traces)))
    e = traces[0]['events'][3]
    run.sample({k: e[k] for k in ('kind', 'name', 'verified', 'nonces', 'canaries')})
    run.coverage['rule'] = 'a case is one encrypted repository (key graph x cipher x hash) with init, add-key, snapshots by every user, delete and clean; distinct by configuration and seed'
    run.assumptions += ['AEAD ciphertext hides its payload; MAC and hash are one-way', 'the reader holds every key of the run (so that it can name the key of each ciphertext)']


def replay(run, path):
    main(run)
