"""C15 - restore and the listings select exactly what the filters and timestamps say.

spec  : RepoTrace.tla ExpectedTree (newest readable snapshot matching S that contains the path, for every path
        matching F), LsSidSet / LfExpected / NewestFirst; Repo.tla carries the abstract store the rows are taken from
L3    : histories in which paths appear, change and disappear (distinct controlled timestamps), every command by
        every user, snapshot and file regular expressions incl. none, column selections, header on/off; restored trees
        and parsed stdout are validated by TLC; every printed snapshot name is fed back to restore -S and to delete
"""
from . import repo_common as rc
from .. import harness, repodrv

LEVEL = 'model_checking'
CLAUSES = ['P:RestoreOk', 'P:RestoreSelect', 'P:RestoreNothingElse', 'P:ListOk', 'P:ListSnapshotsSet', 'P:ListSnapshotsDetail',
           'P:ListNewestFirst', 'P:ListOnce', 'P:ListTrueValues', 'P:ListFilesSet', 'P:DeleteAccepted', 'P:DeleteComplete',
           'P:ConfinedNamed']

SREGEX = [None, '^[0-7]', '[89a-f]$', '^$', 'a|b', '00', '.']
FREGEX = [None, r'\.bin$', '/d/', 'f1|g2', '^/nomatch', r'^/', 'g', r'f\d\.bin$', '/src/d/g0', r'F1\.BIN$', '/D/', 'G']


def evolving_history(sess, steps):
    from replicat.utils import FileListColumn as FC, SnapshotListColumn as SC
    r = sess.rng
    content = repodrv.Content(r, nblocks=8)
    names = ['f0.bin', 'f1.bin', 'f2.bin', 'd/g0.dat', 'd/g1.dat', 'd/e/h0.dat', 'F1.BIN', 'D/G0.dat']      # two pairs differ in case only
    live = {}
    desc = []
    for step in range(steps):
        u = r.choice(sess.users)
        # paths appear, change, disappear
        for f in names:
            x = r.random()
            if f not in live and x < 0.5:
                live[f] = sess.write_file(f, b'' if r.random() < 0.15 else content.make() or b'x')
            elif f in live and x < 0.25:
                (sess.src / f).unlink()
                del live[f]
            elif f in live and x < 0.6:
                # a path changes - sometimes to an EMPTY file (truncated to zero bytes): the newest version is then the empty one
                live[f] = sess.write_file(f, b'' if r.random() < 0.25 else content.make() or b'y')
        if not live:
            live[names[0]] = sess.write_file(names[0], b'seed')
        pick = r.sample(sorted(live), r.randrange(1, len(live) + 1))
        o = sess.snapshot(u, [live[f] for f in pick], note=r.choice([None, 'note %d' % step, 'x y']))
        desc.append('snapshot(%s,%s)->%s' % (u, pick, o.etype))
        for _ in range(r.randrange(1, 4)):
            v = r.choice(sess.users)
            S = r.choice(SREGEX)
            if r.random() < 0.4 and sess.snapname:
                nm = sess.snapname[r.choice(sorted(sess.snapname))]
                S = r.choice(['^' + nm + '$', nm[:4], nm[-3:] + '$', nm[5:9]])
            F = r.choice(FREGEX)
            k = r.random()
            if k < 0.45:
                o = sess.restore(v, S, F)
                desc.append('restore(%s,%s,%s)->%s' % (v, S, F, o.etype))
                if r.random() < 0.7 and o.ok:
                    # the same selection once more into the SAME, now populated, directory: what is already there must not change the choice
                    o = sess.restore(v, S, F, target=o.target)
                    desc.append('restore-again-into-the-same-directory(%s,%s,%s)->%s' % (v, S, F, o.etype))
            elif k < 0.7:
                cols = r.choice([None, [SC.NAME], [SC.NAME, SC.SIZE], [SC.TIMESTAMP, SC.NAME, SC.FILE_COUNT], [SC.NOTE, SC.SIZE, SC.TIMESTAMP]])
                o = sess.ls(v, S, columns=cols, header=r.random() < 0.5)
                desc.append('ls(%s,%s,%s)->%s' % (v, S, cols and [str(c.value) for c in cols], o.etype))
            else:
                cols = r.choice([None, [FC.SIZE], [FC.DIGEST, FC.CHUNK_COUNT], [FC.ATIME, FC.MTIME, FC.CTIME, FC.SNAPSHOT_DATE], []])
                o = sess.lf(v, S, F, columns=cols, header=r.random() < 0.5)
                desc.append('lf(%s,%s,%s,%s)->%s' % (v, S, F, cols and [str(c.value) for c in cols], o.etype))
    # everything, twice into one directory (the second run finds every file already in place)
    for u in sess.users:
        o = sess.restore(u)
        if o.ok:
            o = sess.restore(u, target=o.target)
            desc.append('restore-everything-twice(%s)->%s' % (u, o.etype))
    # every printed name is a name that restore -S and delete accept
    for u in sess.users:
        for s in sess.readable(u):
            o = sess.restore(u, '^%s$' % sess.snapname[s])
            desc.append('restore-by-printed-name(%s,%d)->%s' % (u, s, o.etype))
    for u in sess.users:
        rd = sess.readable(u)
        if rd:
            s = r.choice(rd)
            o = sess.delete(u, [s])
            desc.append('delete-by-printed-name(%s,%d)->%s' % (u, s, o.etype))
            sess.ls(u)
            sess.restore(u)
    return desc


def main(run):
    quick = run.tier == 'quick'
    rc.design(run, ['mixed'] if quick else ['plain', 'shared', 'mixed'])
    traces = []
    n = 3 if quick else 40
    for g in rc.ALL_GRAPHS:
        for seed in range(run.seed * 100, run.seed * 100 + n):
            with harness.scratch() as d:
                s = repodrv.Session(g, d, seed=seed)
                desc = evolving_history(s, 5 if quick else 9)
                traces.append(s.trace(extra={'history': desc}))
                run.case(('evolve', g, seed, len(desc)))
    rc.validate(run, traces, CLAUSES, label='c15.evolving')
    run.coverage['rule'] = ('a case is one history of snapshots over an evolving file set (paths appear, change, disappear) by the users of one key '
                            'graph, interleaved with restores / list-snapshots / list-files under random snapshot and file regexes and column selections')
    run.assumptions += ['match sets of regular expressions computed with Python re (the property is about selection, not the regex engine)',
                        'expected cell values from the independent codec and an independent size formatter', 'timestamps are distinct (controlled clock)']


def replay(run, path):
    main(run)
