"""C13 - all backends behave as the same simple object store.

spec   : ObjectStore.tla - Apply / Result of a name -> bytes map (names are code point sequences, the prefix relation is the spec's)
L2     : TLC-simulated behaviours of ObjectStore.tla mapped to concrete names and replayed on every adapter
L3     : seeded random histories over awkward names (printable and non-ASCII characters, spaces, % ? # + & = ~ * ' ( ) ;), prefixes of
         every name, object counts spanning several listing pages (fake page sizes 2, 3, 1000), payloads around the stream chunk
         size, and for the local backend every spelling of the repository path (relative, ./x, x/, x//y/../y, absolute, '.').
         Every operation with the result the adapter returned is validated by ObjectStoreTrace.tla through the same Apply / Result.
adapters: replicat.backends.local.Local on a real directory; s3c.S3Compatible and b2.B2 built by their own constructors, talking to
         in-process fake services (rv/fakes3.py verifies SigV4 of every request; rv/fakeb2.py implements versions and hide markers).
"""
import asyncio
import inspect
import io
import os
import random

from .. import fakeb2, fakes3, harness, tlc, vclock

LEVEL = 'model_checking'
SPECIAL = ['a b', 'x%y', 'q?r', 'h#i', 'p+q', 'a&b=c', 't~u', 's*t', "o'k", '(p)', 'x;y', 'é', '漢字', 'Z', '0', 'dot.ted', 'UP_low-1', 'tail.tmp', 'x.tmp.y', '%41', 'a%2Fb', '@at', 'c,d', 'e!f', 'g$h', 'i:j']


def codepoints(s):
    return [ord(c) for c in s]


def gen_names(rng, n, allow):
    """n names built from path segments, none a directory prefix of another"""
    names = set()
    segs = [s for s in SPECIAL if allow(s)]
    tries = 0
    while len(names) < n and tries < 10000:
        tries += 1
        depth = rng.choice([1, 1, 2, 2, 3])
        nm = '/'.join(rng.choice(segs) + (str(rng.randrange(100)) if rng.random() < 0.5 else '') for _ in range(depth))
        if any(o == nm or o.startswith(nm + '/') or nm.startswith(o + '/') for o in names):
            continue
        names.add(nm)
    return sorted(names)


def prefixes_of(names, rng, k):
    out = {''}
    for nm in rng.sample(names, min(k, len(names))):
        out.add(nm[:rng.randrange(0, len(nm) + 1)])
        out.add(nm)
        if '/' in nm:
            out.add(nm[:nm.index('/') + 1])
            out.add(nm[:nm.index('/')])
    return sorted(out)


async def maybe(fn, *a):
    r = fn(*a)
    if inspect.isawaitable(r):
        r = await r
    return r


async def listing(be, prefix):
    r = be.list_files(prefix)
    if hasattr(r, '__aiter__'):
        return [x async for x in r]
    if inspect.isawaitable(r):
        r = await r
    return list(r)


async def run_ops(be, ops, contents, names, chunk=16, fake=None, others=()):
    idx = {n: i + 1 for i, n in enumerate(names)}
    evs = []
    first = be
    for i_, op in enumerate(ops):
        # several adapter OBJECTS on the same store take turns (several clients / processes): none of them may answer from what it remembers
        be = (first, *others)[(op['by'] if 'by' in op else (i_ * 7 + i_ // 3 + (i_ * i_) // 5)) % (1 + len(others))] if others else first
        k = op['k']
        e = {'k': k, 'n': idx.get(op.get('n'), 0), 'c': op.get('c', 0), 'ok': True, 'v': 0, 'names': [], 'unknown': 0, 'prefix': codepoints(op.get('prefix', ''))}
        if fake is not None:
            fake.op_calls = 0
        try:
            if k == 'upload':
                await maybe(be.upload, op['n'], contents[op['c']])
            elif k == 'upload_stream':
                await maybe(be.upload_stream, op['n'], io.BytesIO(contents[op['c']]), len(contents[op['c']]), *([chunk] if chunk else []))
            elif k == 'delete':
                await maybe(be.delete, op['n'])
            elif k == 'exists':
                e['v'] = 1 if await maybe(be.exists, op['n']) else 0
            elif k == 'download':
                d = await maybe(be.download, op['n'])
                e['v'] = next((i for i, b in contents.items() if b == d), -1)
            elif k == 'download_stream':
                s = io.BytesIO()
                await maybe(be.download_stream, op['n'], s, *([chunk] if chunk else []))
                e['v'] = next((i for i, b in contents.items() if b == s.getvalue()), -1)
            elif k == 'list':
                got = await listing(be, op['prefix'])
                e['names'] = [idx[g] for g in got if g in idx]
                e['unknown'] = len([g for g in got if g not in idx])
                e['raw'] = [g for g in got if g not in idx][:3]
        except (fakeb2.Runaway, fakes3.Runaway, RecursionError):
            e['ok'] = False
            e['etype'] = 'Runaway'
            e['runaway'] = True
        except Exception as ex:  # noqa: BLE001
            e['ok'] = False
            e['etype'] = type(ex).__name__
        evs.append(e)
    return evs


def random_ops(rng, names, prefixes, ncontents, n):
    ops = []
    for _ in range(n):
        k = rng.choice(['upload', 'upload_stream', 'upload', 'delete', 'exists', 'download', 'download_stream', 'list', 'list'])
        if k == 'list':
            ops.append({'k': k, 'prefix': rng.choice(prefixes)})
        else:
            ops.append({'k': k, 'n': rng.choice(names), 'c': rng.randrange(1, ncontents + 1) if k.startswith('upload') else 0})
    # end with a full listing and a look at every name
    ops.append({'k': 'list', 'prefix': ''})
    for nm in names:
        ops.append({'k': 'exists', 'n': nm})
    return ops


def contents_pool(rng, chunk=16):
    sizes = [0, 1, chunk - 1, chunk, chunk + 1, 3 * chunk, 3 * chunk + 5, 200] if chunk < 1000 else [0, chunk - 1, chunk, chunk + 1, 2 * chunk + 17]
    return {i + 1: bytes([i + 1]) + rng.randbytes(max(s - 1, 0)) if s else b'' for i, s in enumerate(sizes)}


class PausingStream(io.BytesIO):
    """delivers half of its bytes, then waits inside read() until released: an upload that is still under way"""

    def __init__(self, data):
        super().__init__(data)
        import threading
        self.half = max(1, len(data) // 2)
        self.reached, self.release = threading.Event(), threading.Event()

    def read(self, n=-1):
        if self.tell() >= self.half and not self.release.is_set():
            self.reached.set()
            self.release.wait(20)
        if n is None or n < 0 or n > self.half:
            n = self.half
        return super().read(n)


def overlap_history(run, spelling, seed):
    """local adapter: listings, existence checks and downloads issued WHILE a streamed upload of a new name / of a replacement is under
    way (another thread or process looking at the same directory).  "An upload atomically replaces the object": until the upload
    call returns the map is the old one - nothing of the unfinished upload may be listed, exist or be downloaded."""
    import threading
    rng = random.Random(seed)
    names = ['data/aa/chunk-1', 'data/aa/chunk-2', 'data/ab/chunk-3', 'snapshots/aa/s-1', 'top']
    contents = contents_pool(rng)
    idx = {n: i + 1 for i, n in enumerate(names)}
    evs = []

    def look(be, tag):
        out = []
        for pf in ('', 'data/', 'data/aa/', 'data/aa/chunk', 'data/aa/chunk-2', 'snap', 'to'):
            got = list(be.list_files(pf))
            out.append({'k': 'list', 'n': 0, 'c': 0, 'ok': True, 'v': 0, 'names': [idx[g] for g in got if g in idx], 'unknown': len([g for g in got if g not in idx]),
                        'raw': [g for g in got if g not in idx][:3], 'prefix': codepoints(pf), 'during': tag})
        for nm in names:
            out.append({'k': 'exists', 'n': idx[nm], 'c': 0, 'ok': True, 'v': 1 if be.exists(nm) else 0, 'names': [], 'unknown': 0, 'prefix': [], 'during': tag})
            e = {'k': 'download', 'n': idx[nm], 'c': 0, 'ok': True, 'v': 0, 'names': [], 'unknown': 0, 'prefix': [], 'during': tag}
            try:
                d = be.download(nm)
                e['v'] = next((i for i, b in contents.items() if b == d), -1)
            except Exception as ex:  # noqa: BLE001
                e['ok'] = False
                e['etype'] = type(ex).__name__
            out.append(e)
        return out

    with harness.scratch() as d, vclock.virtual():
        be, old = make_local(spelling, d)
        try:
            for nm, c in (('data/aa/chunk-1', 4), ('top', 2)):
                be.upload(nm, contents[c])
                evs.append({'k': 'upload', 'n': idx[nm], 'c': c, 'ok': True, 'v': 0, 'names': [], 'unknown': 0, 'prefix': []})
            # a new name, then a replacement of an existing one, then a new name in a directory that does not exist yet
            for nm, c in (('data/aa/chunk-2', 5), ('data/aa/chunk-1', 7), ('snapshots/aa/s-1', 8), ('top', 6)):
                st = PausingStream(contents[c])
                box = {}

                def up(nm=nm, st=st, c=c, box=box):
                    try:
                        be.upload_stream(nm, st, len(contents[c]), 16)
                    except Exception as ex:  # noqa: BLE001
                        box['err'] = ex
                th = threading.Thread(target=up, daemon=True)
                th.start()
                if not st.reached.wait(20):
                    raise tlc.MachineryError('the paused upload never reached its stream')
                evs.append({'k': 'begin', 'n': idx[nm], 'c': c, 'ok': True, 'v': 0, 'names': [], 'unknown': 0, 'prefix': []})
                evs.extend(look(be, nm))
                st.release.set()
                th.join(30)
                evs.append({'k': 'upload_stream', 'n': idx[nm], 'c': c, 'ok': 'err' not in box, 'v': 0, 'names': [], 'unknown': 0, 'prefix': []})
                evs.extend(look(be, ''))
        finally:
            if old:
                os.chdir(old)
    run.case(('overlap', spelling, seed))
    return {'kind': 'local:' + spelling, 'seed': seed, 'names': [codepoints(n) for n in names], 'name_strings': names, 'events': evs}


LOCAL_SPELLINGS = ['abs', 'rel', './rel', 'rel/', 'rel//sub/../sub', '.']


class CommandStore:
    """the object commands of replicat (upload-objects / download-objects / list-objects / delete-objects) presented as an
    object store, so that ObjectStoreTrace.tla can judge them too (conformance only: they are not part of C13's statement)"""

    def __init__(self, root):
        from replicat.backends.local import Local
        self.root = str(root)
        self.repo_dir = os.path.join(self.root, 'cmdrepo')
        self.stage = os.path.join(self.root, 'stage')
        os.makedirs(self.repo_dir)
        os.makedirs(self.stage)
        self.Local = Local

    def _repo(self):
        return harness.Repository(self.Local(self.repo_dir), concurrent=3, quiet=True, cache_directory=None)

    async def upload(self, name, data):
        p = os.path.join(self.stage, name)
        os.makedirs(os.path.dirname(p), exist_ok=True)
        with open(p, 'wb') as f:
            f.write(data)
        old = os.getcwd()
        os.chdir(self.stage)
        try:
            from pathlib import Path
            await self._repo().upload_objects([Path(p)])
        finally:
            os.chdir(old)
            os.remove(p)

    async def upload_stream(self, name, stream, length, chunk_size=16):
        await self.upload(name, stream.read())

    async def download(self, name):
        import re
        import tempfile
        from pathlib import Path
        d = tempfile.mkdtemp(dir=self.root)
        r = await self._repo().download_objects(path=Path(d), object_regex='^' + re.escape(name) + '$')
        p = os.path.join(d, name)
        if not os.path.isfile(p):
            raise FileNotFoundError(name)
        with open(p, 'rb') as f:
            return f.read()

    async def download_stream(self, name, stream, chunk_size=16):
        stream.write(await self.download(name))

    async def exists(self, name):
        import contextlib
        with contextlib.redirect_stdout(io.StringIO()):
            r = await self._repo().list_objects(object_prefix=name)
        return name in r.paths

    async def list_files(self, prefix=''):
        import contextlib
        with contextlib.redirect_stdout(io.StringIO()) as out:
            r = await self._repo().list_objects(object_prefix=prefix)
        # what the command prints is what it returns
        if out.getvalue().splitlines() != list(r.paths):
            raise AssertionError('list-objects printed something else than it returned')
        return list(r.paths)

    async def delete(self, name):
        await self._repo().delete_objects([name], confirm=False)

    async def close(self):
        pass


def make_local(spelling, root):
    """-> (backend, cleanup cwd)"""
    from replicat.backends.local import Local
    base = os.path.join(str(root), 'repo')
    os.makedirs(os.path.join(base, 'sub'), exist_ok=True)
    old = os.getcwd()
    if spelling == 'abs':
        return Local(base), old
    if spelling == '.':
        os.chdir(base)
        return Local('.'), old
    os.chdir(str(root))
    path = {'rel': 'repo', './rel': './repo', 'rel/': 'repo/', 'rel//sub/../sub': 'repo//sub/../sub'}[spelling]
    return Local(path), old


def classify(kind, t, e, names):
    nm = names[e['n'] - 1] if e.get('n') else ''
    if kind.startswith('local') and e['k'] == 'list' and any(x.endswith('.tmp') for x in names):
        return 'local: an object whose name ends in .tmp is never listed'
    return 'any'


def one_history(run, kind, seed, nobj, nops, quick, ops_override=None, names_override=None, default_chunk=False):
    rng = random.Random(seed)
    allow = (lambda s: True)
    names = names_override or gen_names(rng, nobj, allow)
    prefixes = prefixes_of(names, rng, 6)
    # default_chunk: the adapters' own default stream chunk size (128 000 bytes) and objects around / above it
    contents = contents_pool(rng, 128_000) if default_chunk else contents_pool(rng)
    ops = ops_override or random_ops(rng, names, prefixes, len(contents), nops)
    with harness.scratch() as d, vclock.virtual():
        old = None
        others = []
        if kind.startswith('local:'):
            be, old = make_local(kind.split(':', 1)[1], d)
        fake = None
        if kind.startswith('local:'):
            pass
        elif kind == 'cmd:local':
            be = CommandStore(d)
        elif kind.startswith('s3:'):
            fake = fakes3.FakeS3(page_size=int(kind.split(':')[1]))
            be = fakes3.client(fake)
            others = [fakes3.client(fake)] if seed % 3 else []
        else:
            fake = fakeb2.FakeB2(page_size=int(kind.split(':')[1]), restricted=bool(seed % 2))
            be = fakeb2.client(fake)
            others = [fakeb2.client(fake)] if seed % 3 else []
        try:
            async def go():
                evs = await run_ops(be, ops, contents, names, fake=fake, chunk=None if default_chunk else 16, others=others)
                for o_ in others:
                    await o_.close()
                r = be.close()
                if inspect.isawaitable(r):
                    await r
                return evs
            evs = asyncio.run(go())
        finally:
            if old:
                os.chdir(old)
    run.case((kind, seed, nobj, nops, len(ops), tuple(sorted(str(o) for o in ops[:6]))), nontrivial=len(ops) > 3)
    return {'kind': kind, 'seed': seed, 'names': [codepoints(n) for n in names], 'name_strings': names, 'events': evs}


def l2_behaviours(run, quick):
    """TLC behaviours of ObjectStore.tla -> concrete operation lists"""
    text = open(os.path.join(tlc.SPEC_DIR, 'MC_ObjectStore.cfg')).read().replace('MaxOps = 4', 'MaxOps = 9')
    text = text.replace('INVARIANT ListSound\n', '').replace('PROPERTY UploadThenVisible\n', '').replace('PROPERTY DeleteIdempotent\n', '')
    behs, res = tlc.simulate('ObjectStore', 'sim.cfg', num=6 if quick else 80, depth=10, seed=run.seed + 13, cfg_text=text)
    sym = {1: 'a b', 2: 'x%y', 3: '漢'}
    out = []
    for b in behs:
        ops = []
        for _, st in b[1:]:
            op = st['last']['op']
            nm = '/'.join(sym[c] for c in op['n'])
            if op['k'] == 'list':
                ops.append({'k': 'list', 'prefix': nm})
            else:
                ops.append({'k': op['k'], 'n': nm, 'c': op['c']})
        out.append(ops)
    names = ['a b', 'a b/x%y', 'x%y/a b', 'x%y/a b/漢']
    # <<1>> is a directory prefix of <<1,2>>: not a legal pair of names on a file system; keep the deeper one
    return out, ['a b/x%y', 'x%y/a b/漢', 'a b!', 'x%y/a bc']


def main(run):
    quick = run.tier == 'quick'
    res = tlc.check_design('ObjectStore', 'MC_ObjectStore.cfg')
    # the fake S3 / B2 services are replay-tested against spec/Services.tla first (a disagreement is a machinery failure)
    from .. import svcselftest
    run.add(fake_service_calls_validated_against_Services_tla=svcselftest.run(run.seed + 131, quick))
    run.add(states=res.distinct, transitions=res.generated)
    traces = []
    kinds = ['local:' + s for s in LOCAL_SPELLINGS] + ['s3:2', 's3:3', 's3:1000', 'b2:2', 'b2:3', 'b2:1000', 'cmd:local']
    for i, kind in enumerate(kinds):
        for rep in range(3 if quick else 12):
            seed = run.seed * 1000 + i * 10 + rep
            traces.append(one_history(run, kind, seed, nobj=random.Random(seed).choice([1, 4, 7, 9]), nops=25 if quick else 60, quick=quick))
    # objects around and above the default stream chunk size, streamed with the adapters' own default chunk size
    for i, kind in enumerate(['local:abs', 's3:2', 'b2:2'] if quick else ['local:abs', 'local:rel', 's3:2', 's3:1000', 'b2:2', 'b2:1000']):
        traces.append(one_history(run, kind, run.seed * 1000 + 900 + i, nobj=3, nops=10 if quick else 30, quick=quick, default_chunk=True))
    # two clients, scripted: what one adapter object has seen or written is changed by the other one behind its back
    twonames = ['shared/one', 'shared/two', 'shared/three']
    twoops = [{'k': 'upload', 'n': 'shared/one', 'c': 1, 'by': 0}, {'k': 'exists', 'n': 'shared/one', 'by': 0}, {'k': 'delete', 'n': 'shared/one', 'by': 1},
              {'k': 'exists', 'n': 'shared/one', 'by': 0}, {'k': 'list', 'prefix': 'shared/', 'by': 0}, {'k': 'upload', 'n': 'shared/two', 'c': 2, 'by': 1},
              {'k': 'exists', 'n': 'shared/two', 'by': 0}, {'k': 'download', 'n': 'shared/two', 'by': 0}, {'k': 'upload', 'n': 'shared/two', 'c': 3, 'by': 0},
              {'k': 'download', 'n': 'shared/two', 'by': 1}, {'k': 'delete', 'n': 'shared/two', 'by': 0}, {'k': 'exists', 'n': 'shared/two', 'by': 1},
              {'k': 'upload_stream', 'n': 'shared/three', 'c': 4, 'by': 1}, {'k': 'exists', 'n': 'shared/three', 'by': 1}, {'k': 'delete', 'n': 'shared/three', 'by': 0},
              {'k': 'exists', 'n': 'shared/three', 'by': 1}, {'k': 'download_stream', 'n': 'shared/three', 'by': 1}, {'k': 'list', 'prefix': '', 'by': 1}]
    for kind in ('s3:2', 's3:1000', 'b2:2', 'b2:1000'):
        traces.append(one_history(run, kind, 616162, 0, 0, quick, ops_override=twoops, names_override=twonames))      # seed % 3 != 0: two adapter objects
    # names that end in .tmp are ordinary object names (local backend: recorded finding, exercised on every run)
    tmpnames = ['notes.tmp', 'dir/x.tmp', 'plain']
    tmpops = [{'k': 'upload', 'n': n, 'c': 2} for n in tmpnames] + [{'k': 'exists', 'n': 'notes.tmp'}, {'k': 'download', 'n': 'dir/x.tmp'},
                                                                   {'k': 'list', 'prefix': ''}, {'k': 'list', 'prefix': 'dir/'}, {'k': 'list', 'prefix': 'pl'}]
    for kind in ('local:abs', 's3:2', 'b2:2'):
        traces.append(one_history(run, kind, 424242, 0, 0, quick, ops_override=tmpops, names_override=tmpnames))
    # prefixed listings that span several pages while other names sort before and after the prefix range
    pgnames = ['aaa'] + ['data/%02d/x' % i for i in range(8)] + ['data0'] + ['snapshots/%d' % i for i in range(4)] + ['zzz/last']
    pgops = [{'k': 'upload', 'n': n, 'c': 1 + i % 3} for i, n in enumerate(pgnames)]
    for pf in ('data/', 'data/0', 'da', 'data', 'snapshots/', 's', '', 'data/07/x', 'zzz', 'nomatch'):
        pgops.append({'k': 'list', 'prefix': pf})
    pgops += [{'k': 'delete', 'n': 'data/03/x'}, {'k': 'list', 'prefix': 'data/'}, {'k': 'delete', 'n': 'data/03/x'}, {'k': 'list', 'prefix': 'data/0'}]
    for kind in ('local:abs', 'local:rel', 's3:2', 's3:3', 's3:1000', 'b2:2', 'b2:3', 'b2:1000'):
        traces.append(one_history(run, kind, 515151, 0, 0, quick, ops_override=pgops, names_override=pgnames))
    # look at the store WHILE a streamed upload is under way (atomic replacement)
    for j, sp in enumerate(['abs', 'rel'] if quick else LOCAL_SPELLINGS):
        traces.append(overlap_history(run, sp, run.seed * 31 + j))
    # L2: TLC behaviours on every adapter kind
    behs, l2names = l2_behaviours(run, quick)
    remap = {'a b': 'a b!', 'a b/x%y': 'a b/x%y', 'x%y/a b': 'x%y/a bc', 'x%y/a b/漢': 'x%y/a b/漢'}
    for j, ops in enumerate(behs):
        ops2 = []
        for op in ops:
            o = dict(op)
            if 'n' in o:
                o['n'] = remap.get(o['n'], o['n'])
            ops2.append(o)
        for kind in (['local:abs', 's3:2', 'b2:2'] if quick else ['local:abs', 'local:.', 's3:2', 's3:1000', 'b2:2', 'b2:1000']):
            traces.append(one_history(run, kind, run.seed * 77 + j, 0, 0, quick, ops_override=ops2, names_override=l2names))
    def on_reject(t, idx, clause):
        e = t['events'][idx - 1]
        nm = t['name_strings'][e['n'] - 1] if e.get('n') else ''.join(chr(c) for c in e['prefix'])
        cls = 'any'
        if t['kind'].startswith('cmd:'):
            run.note_drift('C:object-commands:' + clause[2:])
            return True
        if e.get('runaway'):
            cls = 'b2: an HTTP error that persists triggers unbounded re-authentication' if t['kind'].startswith('b2') else 'runaway'
        elif t['kind'].startswith('local') and e['k'] == 'list' and any(x.endswith('.tmp') for x in t['name_strings']):
            cls = 'local: an object whose name ends in .tmp is never listed'
        elif t['kind'] == 'local:.' and e['k'] == 'list':
            cls = "local: repository given as '.' and a prefix with a directory part"
        elif t['kind'].startswith('b2') and any(ch in nm for ch in '?#%'):
            cls = 'b2: URL-special characters in the object name'
        elif t['kind'].startswith('s3') and e['k'] == 'list' and ' ' in nm:
            cls = 's3: space in the listing prefix'
        fresh = run.violation(clause, cls, {'adapter': t['kind'], 'seed': t['seed'], 'index': idx, 'name_or_prefix': nm,
                                            'event': {k: e[k] for k in e if k not in ('prefix',)},
                                            'recent': [(x['k'], x.get('n')) for x in t['events'][max(0, idx - 6):idx]]})
        return not fresh
    final, states = tlc.validate_loop('ObjectStoreTrace', 'Trace_ObjectStore.cfg', traces, on_reject)
    run.add(traces_validated_against_impl=len(traces), operations=sum(len(t['events']) for t in traces), trace_states=states)
    t = traces[0]
    run.sample({'adapter': t['kind'], 'names': t['name_strings'], 'events': [{k: e[k] for k in ('k', 'n', 'c', 'ok', 'v', 'names')} for e in t['events'][:8]]})
    run.coverage['rule'] = ('a case is one operation history on one adapter variant (local x path spelling, S3 x page size, B2 x page size x restricted key): '
                            'random operations over awkward names and all kinds of prefixes, or a TLC-simulated behaviour of ObjectStore.tla')
    run.assumptions += ['the fake S3 / B2 services stand for the real ones (path-style S3, B2 native API v2)', 'no name is a directory prefix of another; no . / .. segments']


def replay(run, path):
    main(run)
