"""C10 - the chunker is a lossless, bounded, deterministic function of the stream.

design : Chunker.tla - the wrapper state machine around the cut function with an abstract window hash; every stream over a
         2-letter word alphabet, every segmentation, several hash tables; Lossless, NonEmpty, Bounds, SegmentationIndependent,
         SuffixLocal; mutants noRoundUp / alwaysFinal / dropByte must fail.
binding: the real chunker (python adapter; shipped extension; library rebuilt from src/adapters.cpp) is run on (L2) the streams of the
         model's scope with concrete 4-byte words and (L3) random / structured streams, under many segmentations and in different
         memory environments; the calls are validated by ChunkerTrace.tla, whose memo rejects any call that contradicts an earlier
         call on the same bytes and segmentation.
"""
import itertools
import os
import random

from .. import chunker, tlc

LEVEL = 'model_checking'
CLAUSES = ['P:Lossless', 'P:NonEmpty', 'P:Bounds', 'P:Deterministic', 'P:SegmentationIndependent']
PARAMS = [(4, 4), (8, 32), (5, 10), (1, 4), (64, 256), (1, 7), (4, 6), (12, 12), (9, 30), (16, 64), (2, 9), (32, 33), (100, 1000)]


def segmentations(rng, total, mx, n):
    """lists of piece lengths summing to total"""
    segs = [[total], [0, total], [total, 0]]
    if total:
        segs.append([1] * total if total <= 600 else [7] * (total // 7) + [total % 7])
        for step in (mx, mx - 1, mx + 1, 3, 2 * mx + 1):
            if step > 0:
                segs.append([step] * (total // step) + ([total % step] if total % step else []))
    for _ in range(n):
        k = rng.randrange(1, 6)
        cuts = sorted(rng.randrange(0, total + 1) for _ in range(k))
        segs.append([b - a for a, b in zip([0] + cuts, cuts + [total])])
    uniq = []
    for s in segs:
        if s not in uniq:
            uniq.append(s)
    return uniq


def split(data, seg):
    out, p = [], 0
    for n in seg:
        out.append(data[p:p + n])
        p += n
    return out


def event(impl, segid, seg, cuts, data, env='-'):
    lens = [len(c) for c in cuts]
    starts, p = [], 0
    for n in lens:
        starts.append(p)
        p += n
    return {'a': 'call', 'impl': impl, 'env': env, 'key': '%s/%d' % (impl, segid), 'grp': impl, 'pieces': seg if len(seg) <= 12 else seg[:12] + ['...'],
            'cuts': lens, 'starts': starts, 'total': len(data), 'lossless': b''.join(cuts) == data, 'shift': 0, 'from': 0, 'rel': 'same', 'editend': 0}


def group(rng, data, key, mn, mx, nseg, envs=('zero', 'ff', 'rnd')):
    """all calls on one stream with one parameter set"""
    evs = []
    segs = segmentations(rng, len(data), mx, nseg)
    from replicat.utils import adapters
    reused = adapters.gclmulchunker(min_length=mn, max_length=mx)
    chunker.adapter([b'warm-up data that a previous call has processed' * 9], key, mn, mx, reused)
    # ... and objects whose previous stream was ABANDONED: the consumer stopped after a few chunks (what an aborted snapshot does to the
    # repository's chunker), or the piece iterator raised in mid-stream
    abandoned = adapters.gclmulchunker(min_length=mn, max_length=mx)
    g = abandoned(iter([rng.randbytes(3 * mx + 5), rng.randbytes(2 * mx + 1), rng.randbytes(mx)]), params=key)
    next(g, None)
    g.close()
    broken = adapters.gclmulchunker(min_length=mn, max_length=mx)

    def failing():
        yield rng.randbytes(2 * mx + 3)
        raise OSError('read error in the middle of a stream')
    try:
        list(broken(failing(), params=key))
    except OSError:
        pass
    for sid, seg in enumerate(segs):
        pieces = split(data, seg)
        evs.append(event('adapter', sid, seg, chunker.adapter(pieces, key, mn, mx), data, 'fresh'))
        evs.append(event('adapter', sid, seg, chunker.adapter(pieces, key, mn, mx, reused), data, 'reused-object'))
        # the pieces as VIEWS of one buffer that the producer refills for every piece (the readinto pattern): a piece must have been
        # taken over completely before the next one is asked for
        evs.append(event('adapter', sid, seg, chunker.adapter(reused_buffer(pieces), key, mn, mx), data, 'views-of-a-reused-buffer'))
        if sid < 3:
            evs.append(event('adapter', sid, seg, chunker.adapter(pieces, key, mn, mx, abandoned), data, 'object-with-an-abandoned-stream'))
            evs.append(event('adapter', sid, seg, chunker.adapter(pieces, key, mn, mx, broken), data, 'object-whose-input-failed'))
        for env in envs:
            evs.append(event('ext', sid, seg, chunker.ext(pieces, key, mn, mx, env), data, env))
            evs.append(event('lib', sid, seg, chunker.libcuts(pieces, key, mn, mx, env), data, env))
    return {'min': mn, 'max': mx, 'events': evs, 'resync': 0, 'keyhex': key.hex(), 'stream_len': len(data)}


def reused_buffer(pieces):
    buf = bytearray(max([len(p) for p in pieces] + [1]))
    for p in pieces:
        buf[:len(p)] = p
        yield memoryview(buf)[:len(p)]
        buf[:len(p)] = b'\xa5' * len(p)        # the producer reuses the memory at once


def classify(t, idx):
    e = t['events'][idx - 1]
    if t['max'] % 4 != 0 and e['impl'] in ('ext', 'lib'):
        return 'max_length not a multiple of 4: the last candidate reads past the buffer'
    return 'any'


def make_key(rng):
    while True:
        k = rng.randbytes(16)
        if any(k[:8]):
            return k


def main(run):
    quick = run.tier == 'quick'
    rng = random.Random(run.seed + 10)
    base = open(os.path.join(tlc.SPEC_DIR, 'MC_Chunker.cfg')).read()
    states = trans = 0
    hs = ['mix', 'zero'] if quick else ['mix', 'zero', 'right', 'left', 'par']
    for h in hs:
        res = tlc.check_design('Chunker', 'mc.cfg', cfg_text=base.replace('HSel = "mix"', 'HSel = "%s"' % h), jvm=())
        states += res.distinct
        trans += res.generated
    if not quick:
        big = base.replace('MaxL = 8', 'MaxL = 12').replace('Mins = {1, 4, 5, 8}', 'Mins = {1, 9, 12}').replace('MaxWords = 6', 'MaxWords = 7').replace('MaxPieces = 2', 'MaxPieces = 3')
        res = tlc.check_design('Chunker', 'mcbig.cfg', cfg_text=big, timeout=3000)
        states += res.distinct
        trans += res.generated
    caught = []
    for m, inv in (('noRoundUp', 'Bounds'), ('alwaysFinal', True), ('dropByte', True)):
        tlc.check_design('Chunker', 'mut.cfg', cfg_text=base.replace('Mutant = "none"', 'Mutant = "%s"' % m), expect_violation=inv)
        caught.append(m)
    run.add(states=states, transitions=trans, spec_mutants_caught=caught)
    chunker.lib()
    traces = []
    # L2: the streams of the model's scope, concrete words
    wa, wb = b'\x01\x02\x03\x04', b'\xfa\xfb\xfc\xfd'
    scope = list(itertools.product([0, 1], repeat=6)) + list(itertools.product([0, 1], repeat=3))
    rng.shuffle(scope)
    for words in scope[:6 if quick else 72]:
        for tail in ((0, 3) if quick else (0, 1, 2, 3)):
            data = b''.join(wb if w else wa for w in words) + b'\x77' * tail
            for mn, mx in ((4, 8), (1, 8), (5, 8), (8, 8)):
                traces.append(group(rng, data, make_key(rng), mn, mx, 2 if quick else 6))
                run.case(('scope', words, tail, mn, mx))
    # L3: random and structured streams
    for i in range(14 if quick else 400):
        mn, mx = PARAMS[i % len(PARAMS)]
        n = rng.choice([0, 1, mx - 1, mx, mx + 1, 2 * mx - 1, 2 * mx, 2 * mx + 1, 5 * mx + 3, rng.randrange(0, 40 * mx if quick else 200 * mx)])
        n = min(n, 6000 if quick else 65536)
        kind = rng.choice(['rand', 'rand', 'zero', 'period', 'lowent'])
        data = {'rand': lambda: rng.randbytes(n), 'zero': lambda: bytes(n), 'period': lambda: (rng.randbytes(rng.randrange(1, 9)) * (n + 1))[:n],
                'lowent': lambda: bytes(rng.choice(b'ab') for _ in range(n))}[kind]()
        traces.append(group(rng, data, make_key(rng), mn, mx, 3 if quick else 8))
        run.case(('rand', i, mn, mx, n, kind), nontrivial=n > mx)
    # one explicit key used by chunker objects with DIFFERENT bounds in the same process (two repositories sharing a key, a benchmark after a
    # backup): the cuts are a function of the bytes and of THIS object's parameters
    shared_key = make_key(rng)
    for mn, mx in ((64, 256), (500, 10000), (4, 64), (64, 256)):
        data = rng.randbytes(30_000)
        traces.append(group(rng, data, shared_key, mn, mx, 2))
        run.case(('shared-key', mn, mx))
    # realistic sizes: pieces of megabytes (snapshot reads 16 MiB pieces), streams and last pieces that are exact multiples of 1 MiB, cut
    # positions at multiples of MiB - thresholds inside the wrapper (buffer steps, slices) are invisible with pieces of a few bytes
    MiB = 1 << 20
    for mn, mx in (((4096, 65536),) if quick else ((4096, 65536), (128_000, 5_120_000), (65536, 65536))):
        for L in ((9 * MiB + 4096, 2 * MiB) if quick else (9 * MiB + 4096, 2 * MiB, 17 * MiB, MiB, 5 * MiB - 4)):
            data = rng.randbytes(L)
            key = make_key(rng)
            t = {'min': mn, 'max': mx, 'events': [], 'resync': 0, 'keyhex': key.hex(), 'stream_len': L}
            segs = [[L], [MiB] * (L // MiB) + ([L % MiB] if L % MiB else []), [128_000] * (L // 128_000) + ([L % 128_000] if L % 128_000 else [])]
            if L > 4 * MiB:
                segs += [[L - MiB, MiB], [L - 2 * MiB, 2 * MiB], [4 * MiB, L - 4 * MiB], [L - 4 * MiB - 4096, 4 * MiB + 4096]]
            for sid, seg in enumerate(segs):
                t['events'].append(event('adapter', sid, seg, chunker.adapter(split(data, seg), key, mn, mx), data, 'fresh'))
            t['events'].append(event('lib', 0, segs[0], chunker.libcuts(split(data, segs[0]), key, mn, mx, 'zero'), data, 'zero'))
            traces.append(t)
            run.case(('megabyte-pieces', mn, mx, L))
    if not quick:
        # the default bounds on a 12 MB stream, pieces of 16 MiB / 1 MiB / odd sizes
        data = rng.randbytes(12_000_000)
        t = {'min': 128_000, 'max': 5_120_000, 'events': [], 'resync': 0, 'keyhex': '', 'stream_len': len(data)}
        key = make_key(rng)
        for sid, seg in enumerate([[len(data)], [1 << 20] * 11 + [len(data) - 11 * (1 << 20)], [5_120_001, len(data) - 5_120_001], [999_983] * 12 + [len(data) - 12 * 999_983]]):
            t['events'].append(event('adapter', sid, seg, chunker.adapter(split(data, seg), key, 128_000, 5_120_000), data, 'fresh'))
        t['keyhex'] = key.hex()
        traces.append(t)
        run.case(('default-bounds', len(data)))
    for t in traces:
        t['check'] = CLAUSES
    pending = list(range(len(traces)))
    for _round in range(30):
        verdicts, res = tlc.validate_traces('ChunkerTrace', 'Trace_Repo.cfg', [traces[i] for i in pending], timeout=3000)
        again = []
        for k, i in enumerate(pending):
            idx, clause = verdicts[k + 1][0], verdicts[k + 1][1]
            if clause != 'ok':
                t = traces[i]
                e = t['events'][idx - 1]
                fresh = run.violation(clause, classify(t, idx), {'min': t['min'], 'max': t['max'], 'key': t['keyhex'], 'stream_len': t['stream_len'],
                                                                 'call': {k_: e[k_] for k_ in ('impl', 'env', 'pieces', 'cuts', 'total')}})
                if not fresh:
                    # known finding: drop the offending call and examine the rest of the group
                    del t['events'][idx - 1]
                    again.append(i)
        pending = again
        if not pending:
            break
    run.add(traces_validated_against_impl=len(traces), chunker_calls=sum(len(t['events']) for t in traces))
    t = traces[-1]
    run.sample({'min': t['min'], 'max': t['max'], 'stream_len': t['stream_len'], 'calls': [{k: e[k] for k in ('impl', 'env', 'pieces', 'cuts')} for e in t['events'][:4]]})
    run.coverage['rule'] = ('a case is one (stream, key, min, max) group: the stream is chunked by the adapter, the shipped extension and the rebuilt library under '
                            'every chosen segmentation (single piece, 1-byte pieces, empty pieces, max-1/max/max+1 pieces, random) and memory environment; '
                            'non-trivial = stream longer than max')
    run.assumptions += ['the CLMUL arithmetic itself is outside the specification (abstract hash)', 'ctypes shim + pybind11 stub compile src/adapters.cpp unchanged']


def replay(run, path):
    main(run)
