"""C08 - garbage collection is complete and confined to the caller's own data.

design : Repo.tla action properties CleanExact / DeleteComplete / Confined, histories with Crash and Fail
         (orphans), spec mutants noSnapTag / noChunkTag / cleanInverted must be caught
L2     : TLC behaviours (incl. Crash/Fail) replayed; after every delete/clean the projected chunk set must
         equal TLC's exactly
L3     : random histories with interrupted commands, several owners, foreign objects; RepoTrace clauses
         CleanExact, DeleteComplete, Confined*, OthersUntouched, GcWritesNothing at every event
"""
from . import repo_common as rc

LEVEL = 'model_checking'
CLAUSES = ['P:CleanExact', 'P:DeleteComplete', 'P:ConfinedFamily', 'P:ConfinedCommand', 'P:ConfinedNamed', 'P:OthersUntouched', 'P:GcWritesNothing']


def mass_orphans(run, seed, nbytes=720_000):
    """more than ten thousand unreferenced chunks in one clean (what an interrupted backup of a few GB leaves at default chunk sizes):
    batching, paging and progress code paths that small scenarios never enter. Thorough tier only (the trace has > 20 000 events)."""
    from .. import harness, repodrv
    with harness.scratch() as d:
        s = repodrv.Session('shared', d, seed=seed, min_length=64, max_length=64)
        keep = s.write_file('keep.bin', s.rng.randbytes(3000))
        s.snapshot('a', [keep])
        big = s.write_file('big.bin', s.rng.randbytes(nbytes))
        o = s.snapshot('b', [big])
        s.sync_defs()
        sid = max(s.sids.values())
        loc = [l for l, i in s.sids.items() if i == sid][0]
        # the snapshot object disappears (a delete interrupted after its first phase): everything it referenced alone is garbage now
        s.store.objs.pop(loc)
        s._marker('out', {'a': 'tamper', 'p': 1, 'kind': 'delete', 'area': 'snap', 's': sid, 'gone': True, 'name': loc[:40]}, 'out')
        o2 = s.clean('a')
        desc = ['snapshot(a, 3 kB) ; snapshot(b, %d bytes in 64-byte chunks)->%s ; snapshot object removed ; clean(a)->%s' % (nbytes, o.etype, o2.etype)]
        run.case(('mass-orphans', seed, nbytes))
        return s.trace(extra={'history': desc, 'opts': {'orphans': nbytes // 64}})


def damaged_cache(run, graphs, seeds):
    """a cache entry left half-written by an interrupted run, then clean / delete as the FIRST command afterwards: what is garbage is
    decided by the snapshots in the repository, whatever the cache holds"""
    from pathlib import Path
    import os
    from .. import harness, repodrv
    traces = []
    for g in graphs:
        for seed in seeds:
            with harness.scratch() as d:
                s = repodrv.Session(g, d, seed=seed, cache='__private__')
                r = s.rng
                content = repodrv.Content(r, nblocks=6)
                files = [s.write_file('q%d.bin' % i, content.make() + r.randbytes(150)) for i in range(3)]
                desc = []
                for u in s.users:
                    s.snapshot(u, files[:2] if u == s.users[0] else files[1:])
                for u in s.users:
                    s.ls(u)                                    # everybody's cache is warm
                for u in s.users:
                    cdir = s.world.users[u].cache
                    entries = sorted(p for p in Path(cdir).rglob('*') if p.is_file()) if cdir and os.path.isdir(cdir) else []
                    for p in entries:
                        b = p.read_bytes()
                        p.write_bytes(b[:len(b) // 2])         # ... and every entry is cut in half (interrupted write)
                    s.ctx = 'cache entries truncated by an interrupted write'
                    rd = s.readable(u)
                    if rd and r.random() < 0.5:
                        o = s.delete(u, rd[:1])
                        desc.append('delete-with-damaged-cache(%s)->%s' % (u, o.etype))
                    else:
                        o = s.clean(u)
                        desc.append('clean-with-damaged-cache(%s)->%s' % (u, o.etype))
                    s.ctx = None
                for u in s.users:
                    s.restore(u)
                traces.append(s.trace(extra={'history': desc, 'opts': {'cache': 'private, every entry truncated'}}))
                run.case(('damaged-cache', g, seed))
    return traces


def main(run):
    quick = run.tier == 'quick'
    rc.design(run, ['mixed', 'indep'] if quick else ['plain', 'same', 'shared', 'indep', 'mixed'],
              mutants=['noSnapTag', 'cleanInverted'] if quick else ['noSnapTag', 'noChunkTag', 'cleanInverted', 'nokeep'],
              coverage=not quick)
    rc.l2(run, ['mixed', 'indep', 'plain'] if quick else ['plain', 'same', 'shared', 'indep', 'mixed'],
          num=12 if quick else 150, depth=45, seed=run.seed + 8, kinds=('extra-chunk', 'missing-chunk', 'missing-snapshot', 'extra-snapshot'))
    foreign = {'notes.txt': b'not replicat', 'datax/keep': b'x', 'snapshotsx': b'y', 'misc/a/b': b'z'}
    n = 3 if quick else 40
    traces = rc.histories(run, rc.ALL_GRAPHS, range(run.seed * 100, run.seed * 100 + n), 16 if quick else 30,
                          reads=False, p_crash=0.15, p_clean=0.2, p_delete=0.25, foreign=foreign)
    traces += rc.histories(run, ['indep', 'mixed'], range(run.seed * 100 + 50, run.seed * 100 + 50 + (2 if quick else 20)), 14 if quick else 25,
                           reads=False, p_crash=0.1, p_clean=0.25, flavour='async', concurrent=2, foreign=foreign)
    # one cache directory shared by the keys of several families (a user holding several keys), orphans, cleans by both families in turn
    traces += rc.histories(run, ['indep', 'mixed', 'chain'], range(run.seed * 100 + 80, run.seed * 100 + 80 + (3 if quick else 20)), 16 if quick else 30,
                           reads=False, p_crash=0.2, p_clean=0.3, p_delete=0.15, foreign=foreign, session_kw={'cache': '__shared__'})
    # the same commands over the REAL S3 adapter with paged listings (page size 2 or 3): confinement and completeness must not depend on
    # which page of a listing an object appears on (fault-free histories: garbage comes from deletes racing nothing, foreign objects stay)
    traces += rc.histories(run, ['plain', 'indep', 'mixed'] if quick else rc.ALL_GRAPHS, range(run.seed * 100 + 90, run.seed * 100 + 90 + (2 if quick else 8)),
                           14 if quick else 25, reads=False, p_clean=0.35, p_delete=0.15, flavour='s3', foreign=foreign)
    # ... and over the REAL B2 adapter: names have versions there (two workers storing one chunk create two), delete must remove the name
    traces += rc.histories(run, ['plain', 'shared', 'mixed'] if quick else rc.ALL_GRAPHS, range(run.seed * 100 + 95, run.seed * 100 + 95 + (2 if quick else 8)),
                           14 if quick else 25, reads=False, p_clean=0.3, p_delete=0.25, flavour='b2', foreign=foreign)
    traces += damaged_cache(run, ['shared', 'mixed'] if quick else rc.ALL_GRAPHS, range(run.seed * 10 + 4, run.seed * 10 + 4 + (1 if quick else 3)))
    if not quick:
        traces.append(mass_orphans(run, run.seed + 808))
    rc.validate(run, traces, CLAUSES, label='c08.histories')
    run.coverage['rule'] = ('a case is one command history (key graph x seed, with interrupted commands leaving orphans) or one replayed TLC '
                            'behaviour; non-trivial = more than 10 backend events / more than 2 replayed commands')
    run.assumptions += ['the chunk and snapshot areas contain only objects written by replicat (quantifier of C08)',
                        'destructive commands run alone (README)', 'projection by rv/refcodec.py']


def replay(run, path):
    main(run)
