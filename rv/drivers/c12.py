"""C12 - transient backend faults are masked and persistent ones end in a bounded error.

design : Transfer.tla - one transfer under a retry policy; Exact / NoPartial / Bounded / Masked for every fault position x kind x
         count in small scope; mutants noRewind, noSeekTarget, reauthResetsBudget (the B2 adapter before the fix), unboundedRetry.
binding: the terminal behaviours of Transfer.tla ARE fault scripts; each is executed against the real adapters - local (faulty
         source / target streams wrapped exactly as the commands wrap them: RateLimitedIO -> TQDMIOReader/Writer, failing replace),
         S3 and B2 (mock transport answering 5xx / 429 / 401, dropping the request body after j chunks, cutting the response after
         j chunks). Outcome (bytes at the service or in the target stream, service calls, exception, virtual time slept) is validated by
         TransferTrace.tla. The retry budget is measured per adapter and operation, not hard-wired.
"""
import os
import random

from .. import faults, harness, tlc

LEVEL = 'fault_enumeration'
OPS_DATA = ['upload', 'upload_stream', 'download', 'download_stream']


def scripts(run, quick, direction):
    text = open(os.path.join(tlc.SPEC_DIR, 'MC_Transfer.cfg')).read()
    text = text.replace('Direction = "up"', 'Direction = "%s"' % direction).replace('EmitScripts = FALSE', 'EmitScripts = TRUE')
    text = text.replace('MaxFaults = 5', 'MaxFaults = 4').replace('INVARIANT Masked\n', '')
    res = tlc.run_tlc('Transfer', 'emit.cfg', cfg_text=text, workers=4, timeout=1200)
    if not res.completed:
        raise tlc.MachineryError('script enumeration failed: ' + res.out[-1500:])
    out = []
    for d, script, result in res.prints('F'):
        out.append(([tuple(x) for x in script], result))
    run.add(states=res.distinct, transitions=res.generated)
    return out


def measure_budget(adapter, op, payload, root):
    """how many consecutive 'fail before the first byte' faults are still masked"""
    best = 0
    for k in range(1, 9):
        sc = [(a, 0, 'io') for a in range(1, k + 1)]
        o = run_one(adapter, op, sc, payload, root, k)
        if o['ok'] and o['exact']:
            best = k
        else:
            break
    return best


def run_one(adapter, op, script, payload, root, tag, persistent=None, bulk=0):
    if adapter == 'local':
        d = os.path.join(str(root), 'l%s' % tag)
        os.makedirs(d, exist_ok=True)
        return faults.run_local(op, script, payload, d, persistent=bool(persistent))
    return faults.run_remote(adapter, op, script, payload, persistent=persistent, bulk=bulk)


def main(run):
    quick = run.tier == 'quick'
    rng = random.Random(run.seed + 12)
    base = open(os.path.join(tlc.SPEC_DIR, 'MC_Transfer.cfg')).read()
    for direction in ('up', 'down'):
        res = tlc.check_design('Transfer', 'mc.cfg', cfg_text=base.replace('Direction = "up"', 'Direction = "%s"' % direction).replace('MaxFaults = 5', 'MaxFaults = 4'))
    small = base.replace('MaxFaults = 5', 'MaxFaults = 7').replace('MaxTries = 4', 'MaxTries = 2').replace('MaxReauth = 3', 'MaxReauth = 1')
    caught = []
    for m, d, inv in (('noRewind', 'up', 'Exact'), ('noSeekTarget', 'down', 'Exact'), ('reauthResetsBudget', 'up', 'Bounded'), ('unboundedRetry', 'up', 'Bounded')):
        tlc.check_design('Transfer', 'mut.cfg', cfg_text=small.replace('Mutant = "none"', 'Mutant = "%s"' % m).replace('Direction = "up"', 'Direction = "%s"' % d), expect_violation=inv)
        caught.append(m)
    run.add(spec_mutants_caught=caught)
    sc_up, sc_down = scripts(run, quick, 'up'), scripts(run, quick, 'down')
    payload = bytes(range(3 * faults.CHUNK)) + b'tail'      # 3 stream chunks + a remainder
    events = []
    with harness.scratch() as root:
        for adapter in ('local', 's3', 'b2'):
            for op in OPS_DATA + ([] if adapter == 'local' else ['exists', 'delete', 'list']):
                if adapter == 'local' and op == 'download':
                    continue
                measured = measure_budget(adapter, op, payload, root)
                documented = 4 if adapter == 'local' else 3
                if measured < documented:
                    run.note_drift('C:retry-budget-below-documented:%s.%s' % (adapter, op))
                # the property promises that transient faults are masked: at least one, whatever the policy says
                budget = max(measured, 1)
                pool = sc_up if op.startswith('upload') or op in ('exists', 'delete', 'list') else sc_down
                pool = [s for s in pool if s[0]]
                if adapter != 'b2':
                    pool = [s for s in pool if all(k != 'auth' for _, _, k in s[0])]
                if adapter == 'local':
                    pool = [s for s in pool if all(k == 'io' for _, _, k in s[0])]
                if op in ('exists', 'delete', 'list', 'upload'):
                    pool = [s for s in pool if all(p == 0 for _, p, _ in s[0])]
                rng.shuffle(pool)
                # every single-fault script (each position x kind) first, then longer ones
                singles = [s_ for s_ in pool if len(s_[0]) == 1]
                # 1 .. budget consecutive faults of one kind at one position ("every number of consecutive faults")
                runs = [s_ for s_ in pool if 1 < len(s_[0]) <= budget and len({(p_, k_) for _, p_, k_ in s_[0]}) == 1
                        and [a_ for a_, _, _ in s_[0]] == list(range(1, len(s_[0]) + 1))]
                longer = [s_ for s_ in pool if len(s_[0]) > 1 and s_ not in runs]
                take = singles + runs + longer[:10 if quick else 400]
                for i, (script, predicted) in enumerate(take):
                    o = run_one(adapter, op, script, payload, root, '%s%d' % (op, i))
                    nf = len(script)
                    auth_only = [k for _, _, k in script if k != 'auth']
                    events.append(dict(o, adapter=adapter, op=op, script=[list(x) for x in script], nfaults=nf,
                                       persistent=False, budget=budget, predicted='~'))
                    run.case((adapter, op, tuple(script)))
                # faults that never go away, one per kind
                for kind in (['io'] if adapter == 'local' else ['io', 'status', 'html']):      # html: a 400 whose body is not the service's error format
                    o = run_one(adapter, op, [], payload, root, '%sP%s' % (op, kind), persistent=(0, kind))
                    events.append(dict(o, adapter=adapter, op=op, script=[['*', 0, kind]], nfaults=999, persistent=True, budget=budget, predicted='error'))
                    run.case((adapter, op, 'persistent', kind))
                run.coverage.setdefault('measured_budgets', {})['%s.%s' % (adapter, op)] = measured
        # a real file as the source behind the rate-limit wrapper with a finite limit (upload-objects --rate-limit): a fault in mid-transfer,
        # the rewind, the retry - the object must be exactly the file
        bigp = bytes((i * 31 + 7) % 251 for i in range(150_000))
        for script in ([(1, 1, 'io')], [(1, 2, 'io')], [(1, 1, 'io'), (2, 2, 'io')]):
            o = faults.run_local('upload_stream', script, bigp, root / 'rf', realfile=True, limit=10 ** 9, chunk=4096) if (root / 'rf').mkdir(exist_ok=True) is None else None
            events.append(dict(o, adapter='local', op='upload_stream', script=[list(x) for x in script], nfaults=len(script), persistent=False, budget=3, predicted='~'))
            run.case(('local', 'upload_stream-real-file', tuple(script)))
        # several transfers on ONE B2 adapter object with every token issued so far expiring in between (expired authorisation is a fault
        # the property wants masked): what the adapter remembers from an earlier transfer must not make the next one fail
        import asyncio as _asyncio
        import io as _io
        from .. import fakeb2, vclock

        async def b2_sequence():
            fake = fakeb2.FakeB2()
            fake.op_limit = 200
            be = fakeb2.client(fake)
            outs = []
            try:
                for j in range(3):
                    pl = bytes([j]) * 10 + payload
                    fake.op_calls = 0
                    n0 = fake.calls
                    o = {'ok': True, 'exact': True, 'calls': 0, 'runaway': False, 'nopartial': True, 'etype': '~', 'slept': 0}
                    try:
                        if j % 2:
                            await be.upload('seq/obj-%d' % j, pl)
                        else:
                            await be.upload_stream('seq/obj-%d' % j, faults.wrap_reader(_io.BytesIO(pl)), len(pl), faults.CHUNK)
                        o['exact'] = fake.visible().get('seq/obj-%d' % j) == pl
                    except (fakeb2.Runaway, RecursionError):
                        o.update(ok=False, runaway=True, etype='Runaway')
                    except Exception as ex:  # noqa: BLE001
                        o.update(ok=False, etype=type(ex).__name__)
                    o['calls'] = fake.calls - n0
                    outs.append(o)
                    fake.expire_tokens()
            finally:
                await be.close()
            return outs
        with vclock.virtual():
            for j, o in enumerate(_asyncio.run(b2_sequence())):
                events.append(dict(o, adapter='b2', op='upload' if j % 2 else 'upload_stream', script=[[1, 0, 'auth']] if j else [], nfaults=1 if j else 0,
                                   persistent=False, budget=3, predicted='~'))
                run.case(('b2', 'sequence-with-expiring-tokens', j))
        # listings whose pages are large (hundreds of kilobytes) and break in mid-body: after the retry every name appears exactly once
        for adapter in ('s3', 'b2'):
            for script in ([(1, 1, 'io')], [(1, 2, 'io')], [(1, 3, 'io')], [(1, 2, 'io'), (2, 3, 'io')], [(2, 3, 'io')]):
                o = run_one(adapter, 'list', script, payload, root, 'biglist', bulk=1500)
                events.append(dict(o, adapter=adapter, op='list', script=[list(x) for x in script], nfaults=len(script), persistent=False,
                                   budget=max(len(script), 1), predicted='~'))
                run.case((adapter, 'list-large-page', tuple(script)))
    traces = [{'events': events}]

    def on_reject(t, idx, clause):
        e = t['events'][idx - 1]
        fresh = run.violation(clause, 'any', {k: e[k] for k in ('adapter', 'op', 'script', 'budget', 'ok', 'exact', 'calls', 'etype', 'nopartial', 'slept')})
        return not fresh
    final, states = tlc.validate_loop('TransferTrace', 'Trace_Repo.cfg', traces, on_reject, rounds=60)
    for i, (idx, clause, drift) in final.items():
        if drift != 'ok':
            run.note_drift(drift)
    run.add(traces_validated_against_impl=len(events))
    run.sample({k: events[3][k] for k in ('adapter', 'op', 'script', 'budget', 'ok', 'exact', 'calls', 'slept')})
    run.coverage['rule'] = ('a case is one adapter call (local / S3 / B2 x upload, upload_stream, download, download_stream, exists, delete, list) executed under '
                            'one fault script enumerated by TLC from Transfer.tla (attempt x position x kind), or under a fault that never goes away')
    run.assumptions += ['the fake S3 / B2 services and the mock transport stand for the network', 'waits are virtual (asyncio.sleep / time.sleep recorded, not slept)',
                        'AttemptCap = 64 service calls is the bound for "bounded"; the masking budget is measured per adapter and operation']


def replay(run, path):
    main(run)
