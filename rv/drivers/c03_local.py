"""C03 (ii): the local backend observed at system-call granularity.

A prepared repository is exported to a real directory, one command (snapshot / delete / clean) runs on it in a
subprocess under strace with the real Local backend. (a) The syscall log is validated by LocalFSTrace.tla.
(b) For every (quick: sampled) prefix of the log - writes additionally cut short - the directory is materialised and
looked at ONLY through the Local adapter (list_files, exists, download): that observed object map is the crash
state, and the RepoTrace machinery of part (i) judges it (Safety, then list / restore / snapshot / clean)."""
import base64
import json
import os
import sys

from . import c03
from . import repo_common as rc
from .. import harness, repodrv, straced, tlc


def export(objs, root):
    for name, data in objs.items():
        p = os.path.join(root, name)
        os.makedirs(os.path.dirname(p), exist_ok=True)
        with open(p, 'wb') as f:
            f.write(data)


def observe(root):
    """the object map as the Local adapter shows it: listing, then exists + download of every listed name"""
    from replicat.backends.local import Local
    b = Local(root)
    objs, anomalies = {}, []
    for name in b.list_files(''):
        if not b.exists(name):
            anomalies.append(('listed-but-not-existing', name))
            continue
        objs[name] = b.download(name)
    return objs, anomalies


def fs_trace(events, root, init_paths):
    ids = {}

    def pid(p):
        return ids.setdefault(p, len(ids) + 1)
    init = [pid(p) for p in init_paths]
    evs = []
    for e in events:
        if e['a'] in ('creat', 'write', 'close', 'unlink'):
            d = {'a': e['a'], 'p': pid(e['path'])}
            if e['a'] == 'creat':
                d['trunc'] = bool(e['trunc'])
            if e['a'] == 'write':
                d['n'] = e['n']
            evs.append(d)
        elif e['a'] == 'rename':
            evs.append({'a': 'rename', 'p': pid(e['path']), 'q': pid(e['to'])})
    tmp = [False] + [p.endswith('.tmp') for p in sorted(ids, key=ids.get)]
    return {'events': evs, 'npaths': max(len(ids), 1), 'init': init, 'tmp': tmp[1:] or [False], 'paths': sorted(ids, key=ids.get)}


def one(run, g, seed, kind, quick):
    rtraces, ftraces = [], []
    with harness.scratch() as d:
        s, desc = c03.prepare(g, d, seed, 'plain', 3, 5 if quick else 9)
        if kind == 'clean':
            be = s.world.backend(gate=repodrv.KillAfter(3))
            c = repodrv.Content(s.rng)
            s.snapshot(s.users[0], [s.write_file('orph%d.bin' % i, c.make() + s.rng.randbytes(200)) for i in range(3)], backend=be)
        root = str(d / 'localrepo')
        os.makedirs(root)
        export(s.store.objs, root)
        r = s.rng
        us = [x for x in s.users if s.readable(x)] or s.users
        u = r.choice(us)
        usr = s.world.users[u]
        args = {'dir': root, 'cmd': kind, 'concurrent': 5 if kind == 'snapshot' else 3,
                'password': base64.b64encode(usr.password).decode() if usr.password else None,
                'key': base64.b64encode(usr.key).decode() if usr.key else None}
        info = {'D': [], 'unknown': False}
        if kind == 'snapshot':
            c = repodrv.Content(r, nblocks=8)
            files = [s.write_file('lv%d.bin' % i, c.make() + r.randbytes(r.randrange(1, 300))) for i in range(r.randrange(1, 4))]
            # one new chunk many times in a row: several workers store the same object name at the same time
            block = r.randbytes(250)
            files.append(s.write_file('lv-rep.bin', r.randbytes(90) + block * 24 + r.randbytes(60)))
            args['paths'] = [str(f) for f in files]
            args['fsgate'] = True
            info.update(want=s.capture(files), allempty=False)
        elif kind == 'delete':
            rd = s.readable(u)
            if not rd:
                return rtraces, ftraces
            D = r.sample(rd, r.randrange(1, min(2, len(rd)) + 1))
            args['names'] = [s.snapname[x] for x in D]
            info['D'] = D
        jf = str(d / 'args.json')
        json.dump(args, open(jf, 'w'))
        log = str(d / 'strace.log')
        env = dict(os.environ, PYTHONPATH='/verif', PYTHONDONTWRITEBYTECODE='1')
        p = straced.run([sys.executable, '-m', 'rv.localcmd', jf], log, env=env)
        if p.returncode != 0:
            raise tlc.MachineryError('local command under strace failed: %s' % p.stderr[-600:].decode(errors='replace'))
        events = straced.parse(log, root)
        init_files = {os.path.join(root, n): bytearray(b) for n, b in s.store.objs.items()}
        ftraces.append(dict(fs_trace(events, root, sorted(init_files)), graph=g, seed=seed, history=desc + ['%s(%s) on the local backend under strace' % (kind, u)]))
        # crash states: after each mutating syscall; writes additionally cut at 1 byte and at half
        muts = [i for i, e in enumerate(events) if e['a'] in ('creat', 'write', 'rename', 'unlink', 'truncate')]
        points = []
        for i in muts:
            points.append((i + 1, None, events[i]['a']))
            if events[i]['a'] == 'write' and events[i]['n'] > 1:
                points.append((i, 1, 'write-1'))
                points.append((i, events[i]['n'] // 2, 'write-half'))
        if quick:
            # stratified: a few crash points of every kind (temp file just created, partly written, renamed, unlinked)
            by = {}
            for pt in points:
                by.setdefault(pt[2], []).append(pt)
            points = []
            for kind_, pts in sorted(by.items()):
                points += [pts[0], pts[len(pts) // 2], pts[-1]][:max(1, min(3, len(pts)))]
            points = sorted(set(points), key=lambda t: (t[0], -1 if t[1] is None else t[1]))
        points = [(a_, b_) for a_, b_, _ in points]
        base_n = len(s.store.events) - s.mark
        for k, (upto, partial) in enumerate(points):
            files = {p_: bytearray(b) for p_, b in init_files.items()}
            dirs = set()
            for e in events[:upto]:
                straced.apply(files, dirs, e)
            if partial is not None:
                straced.apply(files, dirs, events[upto], partial=partial)
            croot = str(d / ('crash%d' % k))
            os.makedirs(croot)
            straced.materialise(files, dirs, root, croot)
            objs, anomalies = observe(croot)
            f = s.fork_at(base_n, d / ('lfork%d' % k))
            client = 'local-victim'
            f.store.events.append(('begin', dict(info, p=1, k={'snapshot': 'snap', 'delete': 'del', 'clean': 'clean'}[kind], u=u), None, client))
            # the difference between the repository before the command and what the adapter shows now
            for name in sorted(set(f.store.objs) - set(objs), key=lambda n: (not n.startswith('snapshots/'), n)):
                f.store.events.append(('del', name, True, client))
            for name in sorted(objs, key=lambda n: (n.startswith('snapshots/'), n)):
                if f.store.objs.get(name) != objs[name]:
                    f.store.events.append(('put', name, objs[name], client))
            f.store.events.append(('crash', {'p': 1}, None, client))
            f.store.objs = dict(objs)
            for an in anomalies:
                run.violation('P:ListedExists', 'any', {'anomaly': an, 'graph': g, 'seed': seed, 'syscall_prefix': upto})
            c03.follow_ups(f, 'after crash inside the local backend')
            rtraces.append(f.trace(extra={'history': desc + ['%s(%s) local, crash after syscall %d%s' % (kind, u, upto, '' if partial is None else ' (+%d bytes)' % partial)],
                                          'opts': {'kind': kind, 'syscalls': upto, 'partial': partial}}))
            run.case(('local', g, seed, kind, upto, partial))
    return rtraces, ftraces


def run_local(run, quick):
    rtraces, ftraces = [], []
    combos = [('shared', 'snapshot'), ('plain', 'delete'), ('indep', 'clean'), ('plain', 'snapshot')] if quick else \
             [(g, k) for g in ('plain', 'same', 'shared', 'indep', 'mixed') for k in ('snapshot', 'delete', 'clean')]
    for i, (g, kind) in enumerate(combos):
        for seed in range(run.seed * 100 + 70 + i, run.seed * 100 + 70 + i + 1):
            a, b = one(run, g, seed, kind, quick)
            rtraces += a
            ftraces += b
    tlc.check_design('LocalFS', 'MC_LocalFS.cfg')
    for m in ('direct', 'listtmp'):
        tlc.check_design('LocalFS', 'mut.cfg', cfg_text=open(os.path.join(tlc.SPEC_DIR, 'MC_LocalFS.cfg')).read().replace('Mutant = "none"', 'Mutant = "%s"' % m),
                         expect_violation=True)
    rc.validate(run, rtraces, c03.CLAUSES, label='c03.local-crash-points', sample=False)
    for t in ftraces:
        t['check'] = []
    if ftraces:
        verdicts, res = tlc.validate_traces('LocalFSTrace', 'Trace_Repo.cfg', ftraces)
        run.add(local_syscall_traces=len(ftraces), local_syscalls=sum(len(t['events']) for t in ftraces))
        for tid, v in verdicts.items():
            if v[1] != 'ok':
                t = ftraces[tid - 1]
                ev = t['events'][v[0] - 1]
                run.violation(v[1], 'any', {'label': 'c03.local-syscalls', 'graph': t['graph'], 'seed': t['seed'], 'index': v[0], 'event': ev,
                                            'path': t['paths'][ev['p'] - 1]})
        run.sample({'local_syscalls': [dict(e, path=ftraces[0]['paths'][e['p'] - 1][-40:]) for e in ftraces[0]['events'][:8]]}, limit=8)
