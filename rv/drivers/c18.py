"""C18 - the snapshot cache never changes what a command does.

spec  : RepoTrace.tla never mentions the cache: what restore / list-snapshots / list-files / delete / clean must do is a
        function of the backend objects and the caller's keys only.  The same histories are executed with the cache
        disabled, private per user (cold then warm), shared between users, shared between two repositories, stale
        (other clients add and delete snapshots), and with every cache entry replaced by proper prefixes of itself
        (the states an interrupted cache write can leave) or removed.  Every output is validated by TLC.
"""
import os
from pathlib import Path

from . import repo_common as rc
from . import c15
from .. import fsgate, harness, linefuzz, repodrv, tlc

LEVEL = 'model_checking'
CLAUSES = c15.CLAUSES + ['P:Safety', 'P:CleanExact', 'P:CommitComplete', 'P:SnapshotFaithful']


def cache_files(d):
    out = []
    for root, _, fs in os.walk(d):
        for f in fs:
            out.append(Path(root, f))
    return sorted(out)


def damage_phase(sess, caches, quick, desc):
    """each cache entry in every state an interrupted write can leave; then every read command"""
    for u, cdir in caches.items():
        files = cache_files(cdir)
        if quick:
            files = files[:3]
        for cf in files:
            orig = cf.read_bytes()
            n = len(orig)
            cuts = sorted({0, 1, n // 2, n - 1}) if quick else sorted(set(range(0, n, max(1, n // 24))) | {1, n - 1})
            for k in cuts:
                cf.write_bytes(orig[:k])
                sess.ctx = 'cache entry truncated by an interrupted write'
                sess.ls(u)
                sess.restore(u)
                if k == cuts[0]:
                    sess.lf(u)
                sess.ctx = None
                desc.append('truncate(%s,%d/%d)' % (cf.name[:8], k, n))
            cf.unlink()
            sess.ctx = 'cache entry missing'
            sess.ls(u)
            sess.ctx = None
            cf.write_bytes(orig)
    # destructive commands with a damaged cache
    for u, cdir in caches.items():
        files = cache_files(cdir)
        if files and sess.readable(u):
            cf = files[0]
            orig = cf.read_bytes()
            cf.write_bytes(orig[:len(orig) // 2])
            sess.ctx = 'cache entry truncated by an interrupted write'
            o = sess.clean(u)
            desc.append('clean-with-damaged-cache(%s)->%s' % (u, o.etype))
            sess.ls(u)
            sess.ctx = None
            if cf.exists():
                cf.write_bytes(orig)


GATE = {'pairs': 0, 'calls': 0}


def racing_phase(sess, cache, desc, rounds):
    """two clients start with the same EMPTY cache directory at the same time; their file-system calls in the cache are made to
    coincide (rv/fsgate.py), the situation in which a check-then-act sequence on the cache directory goes wrong"""
    import shutil
    r = sess.rng
    for i in range(rounds):
        shutil.rmtree(cache, ignore_errors=True)
        us = [r.choice(sess.users), r.choice(sess.users)]
        with fsgate.Rendezvous(cache) as gate, linefuzz.fuzz(r.randrange(1 << 30), linefuzz.LOADERS + linefuzz.RESTORE, q=0.1):
            sess.ctx = 'two clients, one empty cache directory, simultaneous cache writes'
            os_ = harness.run_parallel([(lambda u=us[0]: sess.restore(u)), (lambda u=us[1]: sess.restore(u))])
            sess.ctx = None
        desc.append('racing-cold-cache(restore(%s) || restore(%s))->%s pairs=%d/%d' % (us[0], us[1], [getattr(o, 'etype', repr(o)) for o in os_], gate.pairs, gate.calls))
        GATE['pairs'] += gate.pairs
        GATE['calls'] += gate.calls
        for o in os_:
            if isinstance(o, BaseException):
                raise o
    return desc


def variant(run, g, seed, mode, quick):
    traces = []
    with harness.scratch() as d:
        if mode == 'none':
            cache = None
        elif mode == 'private':
            cache = {u: str(d / ('cache_' + u)) for u in 'abc'}
        else:
            cache = str(d / 'cache_shared')
        s = repodrv.Session(g, d / 'r1', seed=seed, cache=cache)
        desc = c15.evolving_history(s, 4 if quick else 7)
        if mode == 'tworepos':
            # a second repository using the same cache directory
            s2 = repodrv.Session(g, d / 'r2', seed=seed + 7, cache=cache)
            desc2 = c15.evolving_history(s2, 3 if quick else 5)
            desc2 += c15.evolving_history(s, 2)
            traces.append(s2.trace(extra={'history': desc2, 'opts': {'cache': mode}}))
        if mode in ('private', 'shared'):
            caches = {u: s.world.users[u].cache for u in s.users}
            if mode == 'shared':
                caches = {s.users[0]: cache}
            damage_phase(s, caches, quick, desc)
        if mode == 'shared':
            racing_phase(s, cache, desc, 2 if quick else 6)
        if mode in ('private', 'shared'):
            # the cache directory also holds entries of OTHER repositories (same shard directories): deleting a snapshot removes its own entry,
            # the neighbours are none of its business
            for u in s.users:
                cdir = s.world.users[u].cache
                for shard in (sorted(p_ for p_ in (Path(cdir) / 'snapshots').glob('*') if p_.is_dir()) if cdir and (Path(cdir) / 'snapshots').is_dir() else []):
                    (shard / ('%s%s-%s' % (shard.name, 'e' * 62, 'f' * 64))).write_bytes(b'entry of another repository')
            for u in s.users:
                for u_ in s.users:
                    s.ls(u_)                     # every cache is warm again
                rd = s.readable(u)
                if rd:
                    s.ctx = 'cache shard directories shared with entries of another repository'
                    o = s.delete(u, rd[:1])
                    s.ctx = None
                    desc.append('delete-next-to-foreign-cache-entries(%s)->%s' % (u, o.etype))
                    s.ls(u)
        traces.append(s.trace(extra={'history': desc, 'opts': {'cache': mode}}))
        run.case((g, seed, mode, len(desc)))
    return traces


def main(run):
    quick = run.tier == 'quick'
    rc.design(run, ['mixed'] if quick else ['same', 'shared', 'mixed'])
    # design model of the cache itself: entry states, shared directories, stale entries; mutants must fail
    base = open(os.path.join(tlc.SPEC_DIR, 'MC_Cache.cfg')).read()
    res = tlc.check_design('Cache', 'MC_Cache.cfg')
    run.add(states=res.distinct, transitions=res.generated)
    caught = []
    for m in ('TrustCache', 'ListFromCache', 'SkipTagWhenCached', 'EmptySkipsVerify'):
        tlc.check_design('Cache', 'mut.cfg', cfg_text=base.replace('Mutant = "none"', 'Mutant = "%s"' % m), expect_violation='CacheTransparent')
        caught.append(m)
    tlc.check_design('Cache', 'mut.cfg', cfg_text=base.replace('Mutant = "none"', 'Mutant = "SkipUploadKnownFromCache"'), expect_violation='ChunksSafe')
    caught.append('SkipUploadKnownFromCache')
    tlc.check_design('Cache', 'benign.cfg', cfg_text=base.replace('Mutant = "none"', 'Mutant = "NoStore"'))     # never caching is transparent too
    run.add(cache_model_mutants_caught=caught)
    traces = []
    graphs = ['same', 'shared', 'mixed', 'plain'] if quick else list(rc.ALL_GRAPHS)
    for g in graphs:
        for seed in range(run.seed * 100, run.seed * 100 + (1 if quick else 3)):
            for mode in ('none', 'private', 'shared', 'tworepos'):
                traces += variant(run, g, seed, mode, quick)
    # a cache made stale by ANOTHER client's delete, then the very same data is snapshotted again (private / shared / no cache)
    from . import c02
    traces += c02.stale_knowledge(run, ['shared', 'same'] if quick else list(rc.ALL_GRAPHS), range(run.seed * 10 + 5, run.seed * 10 + 5 + (1 if quick else 3)))
    rc.validate(run, traces, CLAUSES, label='c18.cache-variants')
    run.add(cache_fs_calls_under_rendezvous=GATE['calls'], cache_fs_calls_made_to_coincide=2 * GATE['pairs'])
    run.coverage['rule'] = ('a case is one evolving history on one key graph under one cache arrangement (none / private per user / shared between '
                            'users / shared between two repositories), the private and shared ones followed by the truncation of every cache entry to '
                            'proper prefixes and its removal, the shared one also by two clients filling the emptied directory at the same moment; stale caches arise because other users delete and add snapshots in between')
    run.assumptions += ['an interrupted cache write leaves a proper prefix of the entry, an empty file or no file']


def replay(run, path):
    main(run)
