"""C04 - damaged or substituted repository objects are never restored silently.

design : Tamper.tla - adversary (damage, swap, replay, delete on chunk and snapshot objects) x restore steps; invariants
         NoSilentDamage / CompleteOrError; the mutant matrix shows which check stops which tamper
binding: every tamper family applied to the real objects of real repositories (plain and encrypted, both ciphers, cache off and
         warm); after each tamper the real restore of the affected snapshot and of everything runs; the outcome - error, or the
         restored tree - is validated by RepoTrace.tla: success is only accepted with exactly the captured bytes (or nothing, if
         the snapshot object itself is gone). The object is repaired afterwards, so one trace carries hundreds of tampers.
"""
import os

from . import repo_common as rc
from .. import harness, repodrv, refcodec, tlc

LEVEL = 'fault_enumeration'
CLAUSES = ['P:RestoreSelect', 'P:RestoreNothingElse']


def tampers(name, blob, others, rng, quick):
    """yield (kind, new bytes or None for delete)"""
    n = len(blob)
    offs = sorted({0, 1, n // 2, n - 1} | {rng.randrange(n) for _ in range(3 if quick else 12)}) if n else []
    if not quick and n <= 400:
        offs = list(range(n))
    for o in offs:
        for bit in ((rng.randrange(8),) if quick else (0, 7)):
            b = bytearray(blob)
            b[o] ^= 1 << bit
            yield 'bitflip@%d.%d' % (o, bit), bytes(b)
    for k in sorted({0, 1, n // 2, n - 1} if quick else set(range(0, n, max(1, n // 16))) | {n - 1}):
        if 0 <= k < n:
            yield 'truncate@%d' % k, blob[:k]
    yield 'extend+1', blob + b'\x00'
    yield 'extend+self', blob + blob
    for oname, oblob in others[:2 if quick else 6]:
        yield 'replaced-by:' + oname[:24], oblob
    yield 'delete', None


def one_repo(run, g, seed, quick, cipher=None, cache=False):
    with harness.scratch() as d:
        cdir = str(d / 'cache') if cache else None
        s = repodrv.Session(g, d, seed=seed, cipher=cipher, cache=cdir, min_length=32, max_length=96)
        r = s.rng
        c = repodrv.Content(r, nblocks=6, lo=30, hi=120)
        desc = []
        files = [s.write_file('t%d.bin' % i, (c.make() or b'x') + r.randbytes(20)) for i in range(3)]
        for u in s.users[:2]:
            s.snapshot(u, files[:2] if u == s.users[0] else files[1:])
            files[1] = s.write_file('t1.bin', c.make() + b'changed')
        if cache is True:
            for u in s.users:
                s.ls(u)       # warm the cache
        objs = dict(s.store.objs)
        names = sorted(n for n in objs if n.startswith(('data/', 'snapshots/')))
        if quick:
            names = [n for n in names if n.startswith('snapshots/')] + (lambda ds: r.sample(ds, min(4, len(ds))))([n for n in names if n.startswith('data/')])
        count = 0
        for name in names:
            area = 'snap' if name.startswith('snapshots/') else 'chunk'
            same = [(n, b) for n, b in objs.items() if n != name and n.startswith(name.split('/')[0] + '/')]
            r.shuffle(same)
            other_area = [(n, b) for n, b in objs.items() if n.startswith(('data/', 'snapshots/')) and not n.startswith(name.split('/')[0] + '/')][:1]
            for kind, new in tampers(name, objs[name], same + other_area, r, quick):
                gone = new is None and area == 'snap'
                sid = s.sids.get(name, 0)
                if new is None:
                    s.store.objs.pop(name, None)
                else:
                    s.store.objs[name] = new
                s._marker('out', {'a': 'tamper', 'p': 1, 'kind': kind, 'area': area, 's': sid, 'gone': gone, 'name': name[:40]}, 'out')
                s.ctx = '%s %s %s' % (area, kind.split('@')[0].split(':')[0], ('cache-' + str(cache)) if cache else 'nocache')
                if cache == 'cold':
                    # the damaged object meets an EMPTY cache, and the command is then simply tried again (what a user does after an error):
                    # whatever the first attempt left in the cache must not make the second one believe the object
                    import shutil
                    shutil.rmtree(cdir, ignore_errors=True)
                for u in s.users:
                    for attempt in range(2 if cache == 'cold' else 1):
                        if area == 'snap' and sid:
                            s.restore(u, '^%s$' % s.snapname[sid], fault=True)
                        s.restore(u, fault=True)
                s.ctx = None
                s.store.objs[name] = objs[name]
                s._marker('out', {'a': 'repair', 'p': 1, 's': sid, 'gone': gone}, 'out')
                count += 1
                run.case((g, seed, cipher and cipher.get('name'), cache, name, kind))
        desc.append('%d tampers on %d objects' % (count, len(names)))
        t = s.trace(extra={'history': desc, 'opts': {'cipher': cipher, 'cache': cache}})
        return t, count


def big_repo(run, g, seed, quick, cipher=None):
    """the same experiment at the chunk sizes of the DEFAULT settings (128 kB - 5.12 MB chunks): code paths that depend on the size of
    a chunk (buffering, thresholds, streamed vs. in-memory handling) are invisible with the miniature chunker used elsewhere"""
    with harness.scratch() as d:
        s = repodrv.Session(g, d, seed=seed, cipher=cipher, min_length=None, max_length=None)
        r = s.rng
        files = [s.write_file('big.bin', r.randbytes(5_000_000 if quick else 14_000_000)), s.write_file('small.bin', r.randbytes(3000))]
        s.snapshot(s.users[0], files)
        objs = dict(s.store.objs)
        names = sorted((n for n in objs if n.startswith('data/')), key=lambda n: -len(objs[n]))
        count = 0
        for name in names[:3 if quick else 8]:
            blob = objs[name]
            n = len(blob)
            others = [b for m, b in objs.items() if m != name and m.startswith('data/')]
            kinds = [('bitflip@0', bytes([blob[0] ^ 1]) + blob[1:]), ('bitflip@mid', blob[:n // 2] + bytes([blob[n // 2] ^ 16]) + blob[n // 2 + 1:]),
                     ('bitflip@last', blob[:-1] + bytes([blob[-1] ^ 128])), ('truncate@n-1', blob[:-1]), ('truncate@half', blob[:n // 2]),
                     ('extend+1', blob + b'\x00')] + ([('replaced-by-chunk', max(others, key=len))] if others else [])
            for kind, new in kinds:
                s.store.objs[name] = new
                s._marker('out', {'a': 'tamper', 'p': 1, 'kind': kind, 'area': 'chunk', 's': 0, 'gone': False, 'name': name[:40]}, 'out')
                s.ctx = 'chunk %s default-sizes len=%d' % (kind.split('@')[0], n)
                for u in s.users[:2]:
                    s.restore(u, fault=True)
                s.ctx = None
                s.store.objs[name] = blob
                s._marker('out', {'a': 'repair', 'p': 1, 's': 0, 'gone': False}, 'out')
                count += 1
                run.case((g, seed, cipher and cipher.get('name'), 'default-sizes', n, kind))
        t = s.trace(extra={'history': ['%d tampers on the %d largest chunks (default chunker, largest %d bytes)' % (count, min(len(names), 8), len(objs[names[0]]))],
                           'opts': {'cipher': cipher, 'sizes': 'default'}})
        return t, count


def main(run):
    quick = run.tier == 'quick'
    base = open(os.path.join(tlc.SPEC_DIR, 'MC_Tamper.cfg')).read()
    states = 0
    for enc, muts, expect in (('TRUE', '{}', None), ('FALSE', '{}', None), ('TRUE', '{"KeyNotBound"}', None), ('TRUE', '{"NoChunkHashCheck"}', None),
                              ('FALSE', '{"NoChunkHashCheck"}', 'NoSilentDamage'), ('TRUE', '{"KeyNotBound", "NoChunkHashCheck"}', 'NoSilentDamage'),
                              ('TRUE', '{"NoSnapshotHashCheck"}', 'NoSilentDamage'), ('FALSE', '{"NoSnapshotHashCheck"}', 'NoSilentDamage')):
        text = base.replace('Encrypted = TRUE', 'Encrypted = ' + enc).replace('Mutants = {}', 'Mutants = ' + muts)
        if not quick:
            text = text.replace('MaxTampers = 2', 'MaxTampers = 3')
        res = tlc.check_design('Tamper', 'mc.cfg', cfg_text=text, expect_violation=expect)
        states += res.distinct
        run.add(transitions=res.generated)
    run.add(states=states)
    traces = []
    grid = [('plain', None, False), ('shared', None, False), ('shared', {'name': 'chacha20_poly1305'}, False), ('plain', None, True), ('indep', {'name': 'aes_gcm', 'key_bits': 128}, True),
            ('plain', None, 'cold'), ('shared', None, 'cold')]
    if not quick:
        grid += [('same', {'name': 'aes_gcm', 'key_bits': 192}, False), ('mixed', None, False), ('mixed', {'name': 'chacha20_poly1305'}, True), ('clone', None, False)]
    total = 0
    for i, (g, cipher, cache) in enumerate(grid):
        for seed in range(run.seed * 10 + i, run.seed * 10 + i + 1):
            t, n = one_repo(run, g, seed, quick, cipher, cache)
            traces.append(t)
            total += n
    for j, (g, cipher) in enumerate([('plain', None), ('shared', None)] + ([] if quick else [('shared', {'name': 'chacha20_poly1305'})])):
        t, n = big_repo(run, g, run.seed * 10 + 50 + j, quick, cipher)
        traces.append(t)
        total += n
    rc.validate(run, traces, CLAUSES, label='c04.tamper')
    run.add(tampered_restores=total)
    run.coverage['rule'] = ('a case is one tamper (bit flip at an offset, truncation to a length, extension, replacement by another object of the same '
                            'or the other area, deletion) of one stored chunk or snapshot object, followed by restores by every user; distinct by '
                            '(repository, object, tamper)')
    run.assumptions += ['AEAD and hash strength', 'a removed snapshot object is indistinguishable from a deleted snapshot: nothing restored is accepted']


def replay(run, path):
    main(run)
