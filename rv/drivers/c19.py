"""C19 - option precedence is CLI over environment over profile over defaults.

spec   : Options.tla - Effective(present) = the first source in cli > env > profile > default > builtin in which the option is set;
         TLC enumerates the complete finite space option x subset of sources x command (one printed state per case).
replay : every case is executed through the real replicat.__main__.main() in-process: a TOML file (default section + profile) is
         written, environment variables are set, sys.argv is built, _cmd_handler is replaced by a recorder. Each source carries its own
         raw value, so the value that reaches the command handler tells which source won; OptionsTrace.tla requires it to be
         Effective(present) and the coerced type to be the same whichever source supplied it. Built-in backends (local, s3c) and a custom
         backend `pc` discovered through the replicat.backends namespace package (str / int / bool constructor arguments with defaults).
"""
import asyncio
import contextlib
import io
import logging
import os
import sys
from pathlib import Path

from .. import harness, tlc

LEVEL = 'model_checking'

PC_SOURCE = '''
from replicat.backends.base import Backend


class PC(Backend, short_name='PC'):
    def __init__(self, connection_string, *, token, port=9877, secure=True):
        self.connection_string, self.token, self.port, self.secure = connection_string, token, port, secure

    async def exists(self, name): return False
    async def upload(self, name, data): pass
    async def upload_stream(self, name, stream, length, chunk_size=1): pass
    async def download(self, name): return b''
    async def download_stream(self, name, stream, chunk_size=1): pass
    async def list_files(self, prefix=''): return []
    async def delete(self, name): pass


Client = PC
'''

# option -> per source: how to set it and the coerced value expected to reach the handler
POSITIONAL = {'init': [], 'add-key': [], 'list-snapshots': [], 'ls': [], 'list-files': [], 'lf': [], 'snapshot': ['PATH'], 'restore': [], 'delete': ['SNAP'],
              'clean': [], 'benchmark': ['gclmulchunker'], 'upload-objects': ['PATH'], 'download-objects': [], 'list-objects': [], 'delete-objects': ['OBJ']}


def spec_for(option, d):
    """-> dict(backend, sources{src: (cli args | env dict | toml (key, value)), value}, observe(fn), builtin value, typ)"""
    kf = {s: str(d / ('key_%s.json' % s)) for s in ('cli', 'profile', 'default')}
    for s, p in kf.items():
        Path(p).write_bytes(b'KEY-FROM-' + s.encode())
    table = {
        'repository': dict(backend='local', cli=['-r', 'local:' + str(d / 'rcli')], env={'REPLICAT_REPOSITORY': 'local:' + str(d / 'renv')},
                           profile=('repository', 'local:' + str(d / 'rprof')), default=('repository', 'local:' + str(d / 'rdef')),
                           vals={'cli': str(d / 'rcli'), 'env': str(d / 'renv'), 'profile': str(d / 'rprof'), 'default': str(d / 'rdef'), 'builtin': os.getcwd()},
                           observe=lambda r: r['connection_string'], typ=str),
        'password': dict(backend='local', cli=['-p', 'pw-cli'], env={'REPLICAT_PASSWORD': 'pw-env'}, profile=('password', 'pw-prof'), default=('password', 'pw-def'),
                         vals={'cli': b'pw-cli', 'env': b'pw-env', 'profile': b'pw-prof', 'default': b'pw-def', 'builtin': None}, observe=lambda r: r['args'].password, typ=bytes),
        'concurrent': dict(backend='local', cli=['-c', '11'], profile=('concurrent', 12), default=('concurrent', '13'),
                           vals={'cli': 11, 'profile': 12, 'default': 13, 'builtin': 5}, observe=lambda r: r['args'].concurrent, typ=int),
        'hide-progress': dict(backend='local', cli=['-q'], profile=('hide-progress', False), default=('hide-progress', 'true'),
                              vals={'cli': True, 'profile': False, 'default': True, 'builtin': False}, observe=lambda r: r['args'].quiet, typ=bool),
        'cache-directory': dict(backend='local', cli=['--cache-directory', str(d / 'ccli')], profile=('cache-directory', str(d / 'cprof')), default=('cache-directory', str(d / 'cdef')),
                                vals={'cli': d / 'ccli', 'profile': d / 'cprof', 'default': d / 'cdef', 'builtin': '__builtin__'}, observe=lambda r: r['args'].cache_directory, typ=Path),
        'key-file': dict(backend='local', cli=['-K', kf['cli']], profile=('key-file', kf['profile']), default=('key-file', kf['default']),
                         vals={'cli': b'KEY-FROM-cli', 'profile': b'KEY-FROM-profile', 'default': b'KEY-FROM-default', 'builtin': None}, observe=lambda r: r['args'].key, typ=bytes),
        'log-level': dict(backend='local', profile=('log-level', 'debug'), default=('log-level', 'error'),
                          vals={'profile': logging.DEBUG, 'default': logging.ERROR, 'builtin': logging.WARNING}, observe=lambda r: r['log_level'], typ=int),
        's3c.key-id': dict(backend='s3c', cli=['--key-id', 'KCLI'], env={'S3C_KEY_ID': 'KENV'}, profile=('key-id', 'KPROF'), default=('key-id', 'KDEF'),
                           vals={'cli': 'KCLI', 'env': 'KENV', 'profile': 'KPROF', 'default': 'KDEF', 'builtin': '__missing__'}, observe=lambda r: r['kw'].get('key_id', '__missing__'), typ=str),
        's3c.region': dict(backend='s3c', cli=['--region', 'r-cli'], env={'S3C_REGION': 'r-env'}, profile=('region', 'r-prof'), default=('region', 'r-def'),
                           vals={'cli': 'r-cli', 'env': 'r-env', 'profile': 'r-prof', 'default': 'r-def', 'builtin': '__missing__'}, observe=lambda r: r['kw'].get('region', '__missing__'), typ=str),
        's3c.scheme': dict(backend='s3c', cli=['--scheme', 'cli-s'], env={'S3C_SCHEME': 'env-s'}, profile=('scheme', 'prof-s'), default=('scheme', 'def-s'),
                           vals={'cli': 'cli-s', 'env': 'env-s', 'profile': 'prof-s', 'default': 'def-s', 'builtin': 'https'}, observe=lambda r: r['kw'].get('scheme', '__missing__'), typ=str),
        's3.key-id': dict(backend='s3', cli=['--key-id', 'K3CLI'], env={'S3_KEY_ID': 'K3ENV'}, profile=('key-id', 'K3PROF'), default=('key-id', 'K3DEF'),
                          vals={'cli': 'K3CLI', 'env': 'K3ENV', 'profile': 'K3PROF', 'default': 'K3DEF', 'builtin': '__missing__'}, observe=lambda r: r['kw'].get('key_id', '__missing__'), typ=str),
        's3.region': dict(backend='s3', cli=['--region', 'r3-cli'], env={'S3_REGION': 'r3-env'}, profile=('region', 'r3-prof'), default=('region', 'r3-def'),
                          vals={'cli': 'r3-cli', 'env': 'r3-env', 'profile': 'r3-prof', 'default': 'r3-def', 'builtin': '__missing__'}, observe=lambda r: r['kw'].get('region', '__missing__'), typ=str),
        'b2.key-id': dict(backend='b2', cli=['--key-id', 'KBCLI'], env={'B2_KEY_ID': 'KBENV'}, profile=('key-id', 'KBPROF'), default=('key-id', 'KBDEF'),
                          vals={'cli': 'KBCLI', 'env': 'KBENV', 'profile': 'KBPROF', 'default': 'KBDEF', 'builtin': '__missing__'}, observe=lambda r: r['kw'].get('key_id', '__missing__'), typ=str),
        # the same KIND of text from every source (digits): whatever it is coerced to, it must be the same whichever source supplied it
        'b2.application-key': dict(backend='b2', cli=['--application-key', '7001'], env={'B2_APPLICATION_KEY': '7002'}, profile=('application-key', '7003'), default=('application-key', '7004'),
                                   vals={'cli': 7001, 'env': 7002, 'profile': 7003, 'default': 7004, 'builtin': '__missing__'}, observe=lambda r: r['kw'].get('application_key', '__missing__'), typ=int),
        'pc.token': dict(backend='pc', cli=['--token', 'tcli'], env={'PC_TOKEN': 'tenv'}, profile=('token', 'tprof'), default=('token', 'tdef'),
                         vals={'cli': 'tcli', 'env': 'tenv', 'profile': 'tprof', 'default': 'tdef', 'builtin': '__missing__'}, observe=lambda r: r['kw'].get('token', '__missing__'), typ=str),
        'pc.port': dict(backend='pc', cli=['--port', '1001'], env={'PC_PORT': '1002'}, profile=('port', 1003), default=('port', '1004'),
                        vals={'cli': 1001, 'env': 1002, 'profile': 1003, 'default': 1004, 'builtin': 9877}, observe=lambda r: r['kw'].get('port', '__missing__'), typ=int),
        'pc.secure': dict(backend='pc', cli=['--secure', 'false'], env={'PC_SECURE': 'False'}, profile=('secure', False), default=('secure', 'false'),
                          vals={'cli': False, 'env': False, 'profile': False, 'default': False, 'builtin': True}, observe=lambda r: r['kw'].get('secure', '__missing__'), typ=bool),
    }
    return table[option]


def toml_value(v):
    if isinstance(v, bool):
        return 'true' if v else 'false'
    if isinstance(v, int):
        return str(v)
    return '"%s"' % str(v).replace('\\', '\\\\').replace('"', '\\"')


def invoke(argv, env):
    """run replicat.__main__.main() with a recording handler -> record or {'exit': ...}"""
    import importlib
    import inspect
    import replicat.utils.cli as rcli
    import replicat.__main__ as rmain
    # a fresh process per invocation: the argparse parsers are module-level objects and main() mutates their defaults
    importlib.reload(rcli)
    rmain = importlib.reload(rmain)
    rec = {}

    async def recorder(backend_type, connection_string, args, settings):
        params = inspect.signature(backend_type).parameters
        kw = {}
        for name, arg in params.items():
            if arg.kind is arg.KEYWORD_ONLY and vars(args)[name] is not rmain._missing_backend_argument:
                kw[name] = vars(args)[name]
        rec.update(backend=backend_type.__name__, connection_string=connection_string, args=args, kw=kw, settings=settings)
    real_handler, real_conf = rmain._cmd_handler, rmain._configure_logging
    levels = []
    rmain._cmd_handler = recorder
    rmain._configure_logging = lambda level: levels.append(level)
    old_argv, old_env = sys.argv, dict(os.environ)
    for k in list(os.environ):
        if k.startswith(('REPLICAT_', 'S3C_', 'S3_', 'B2_', 'PC_', 'LOCAL_')):
            del os.environ[k]
    os.environ.update(env)
    sys.argv = argv
    err = io.StringIO()
    try:
        with contextlib.redirect_stderr(err), contextlib.redirect_stdout(io.StringIO()):
            rmain.main()
    except SystemExit as e:
        return {'exit': 'SystemExit(%s)' % e.code, 'stderr': err.getvalue()[-300:]}
    except Exception as e:  # noqa: BLE001
        return {'exit': type(e).__name__ + ': ' + str(e)[:200]}
    finally:
        rmain._cmd_handler, rmain._configure_logging = real_handler, real_conf
        sys.argv = old_argv
        os.environ.clear()
        os.environ.update(old_env)
    rec['log_level'] = levels[-1] if levels else None
    return rec


# how each source spells the built-in default of an option (Options.tla: CanSpell)
SPELL_DEFAULT = {
    'concurrent': dict(cli=['-c', '5'], profile=('concurrent', 5), default=('concurrent', '5'), value=5),
    'hide-progress': dict(profile=('hide-progress', False), default=('hide-progress', 'false'), value=False),
    'log-level': dict(profile=('log-level', 'warning'), default=('log-level', 'warning'), value=logging.WARNING),
    's3c.scheme': dict(cli=['--scheme', 'https'], env={'S3C_SCHEME': 'https'}, profile=('scheme', 'https'), default=('scheme', 'https'), value='https'),
    'pc.port': dict(cli=['--port', '9877'], env={'PC_PORT': '9877'}, profile=('port', 9877), default=('port', '9877'), value=9877),
    'pc.secure': dict(cli=['--secure', 'true'], env={'PC_SECURE': 'True'}, profile=('secure', True), default=('secure', 'true'), value=True),
}


def run_case(option, present, cmd, d, same='none'):
    sp = spec_for(option, d)
    if same != 'none':
        sp = dict(sp)
        sp[same] = SPELL_DEFAULT[option][same]
        sp['vals'] = dict(sp['vals'], **{same: SPELL_DEFAULT[option]['value']})
        assert sp['vals']['builtin'] == SPELL_DEFAULT[option]['value']
    default_lines, profile_lines, env, opts = [], [], {}, []
    if 'default' in present:
        default_lines.append('%s = %s' % (sp['default'][0], toml_value(sp['default'][1])))
    if 'profile' in present:
        profile_lines.append('%s = %s' % (sp['profile'][0], toml_value(sp['profile'][1])))
    if 'env' in present:
        env.update(sp['env'])
    if 'cli' in present:
        opts += sp['cli']
    be = sp['backend']
    # the repository itself (unless it is the option under test) always comes from the default section
    if option != 'repository':
        default_lines.insert(0, 'repository = "%s:%s"' % (be, str(d / 'repo') if be not in ('s3c', 's3', 'b2') else 'bucket'))
    cfgfile = d / 'replicat.toml'
    cfgfile.write_text('\n'.join(default_lines) + '\n[prof]\n' + '\n'.join(profile_lines) + '\n', encoding='utf-8')
    argv = ['replicat', cmd] + [{'PATH': str(d), 'SNAP': 'abc', 'OBJ': 'o'}.get(x, x) for x in POSITIONAL[cmd]] + ['--config', str(cfgfile), '--profile', 'prof'] + opts
    r = invoke(argv, env)
    ev = {'kind': 'case', 'option': option, 'present': sorted(present), 'cmd': cmd, 'same': same, 'ran': 'exit' not in r, 'consistent': [], 'typeok': True, 'exit': r.get('exit', '~')}
    if ev['ran']:
        got = sp['observe'](r)
        if got == '__missing__' and sp['vals']['builtin'] != '__missing__':
            got = sp['vals']['builtin']      # not passed to the constructor: its own default applies
        if option == 'cache-directory' and 'builtin' not in present and got is not None and str(got).endswith('replicat') and got not in sp['vals'].values():
            got = '__builtin__'
        ev['consistent'] = sorted(s for s in set(present) | {'builtin'} if sp['vals'].get(s) == got)
        ev['typeok'] = got in ('__missing__', '__builtin__', None) or isinstance(got, sp['typ'])
        ev['got'] = repr(got)[:80]
    return ev


def exclusive_cases(d):
    """mutually exclusive options must be rejected"""
    out = []
    kf = d / 'k.json'
    kf.write_bytes(b'k')
    pf = d / 'pw.txt'
    pf.write_bytes(b'pw')
    cases = [('file: key + key-file', 'key = "x"\nkey-file = "%s"\n' % kf, []),
             ('file: password + password-file', 'password = "x"\npassword-file = "%s"\n' % pf, []),
             ('profile: password + password-file', '[prof]\npassword = "x"\npassword-file = "%s"\n' % pf, ['--profile', 'prof']),
             ('profile: key + key-file', '[prof]\nkey = "x"\nkey-file = "%s"\n' % kf, ['--profile', 'prof']),
             ('default password + profile password-file', 'password = "x"\n[prof]\npassword-file = "%s"\n' % pf, ['--profile', 'prof']),
             ('default key-file + profile key', 'key-file = "%s"\n[prof]\nkey = "x"\n' % kf, ['--profile', 'prof']),
             ('cli: -p + -P', '', ['-p', 'x', '-P', str(pf)]),
             ('cli: --no-cache + --cache-directory', '', ['--no-cache', '--cache-directory', str(d)]),
             ('cli: add-key --shared + --clone', '', ['--shared', '--clone'])]
    for label, toml, opts in cases:
        cfgfile = d / 'x.toml'
        cfgfile.write_text('repository = "local:%s"\n' % (d / 'repo') + toml)
        cmd = 'add-key' if 'add-key' in label else 'clean'
        r = invoke(['replicat', cmd, '--config', str(cfgfile)] + opts, {})
        out.append({'kind': 'exclusive', 'option': label, 'present': [], 'cmd': cmd, 'ran': 'exit' not in r, 'rejected': 'exit' in r, 'consistent': [], 'typeok': True, 'exit': r.get('exit', '~')})
    return out


def main(run):
    quick = run.tier == 'quick'
    res = tlc.check_design('Options', 'MC_Options.cfg', workers=1)
    cases = res.prints('O')
    run.add(states=res.distinct, transitions=res.generated, cases_enumerated=len(cases), exhaustive=True)
    events = []
    with harness.scratch() as d:
        ns = d / 'ns' / 'replicat' / 'backends'
        ns.mkdir(parents=True)
        (ns / 'pc.py').write_text(PC_SOURCE)
        sys.path.insert(0, str(d / 'ns'))
        import replicat
        import replicat.backends
        replicat.__path__.append(str(d / 'ns' / 'replicat'))
        replicat.backends.__path__.append(str(ns))
        try:
            for option, present, cmd, winner, same in cases:
                ev = run_case(option, set(present), cmd, d, same)
                ev['expected'] = winner
                events.append(ev)
                run.case((option, tuple(sorted(present)), cmd, same), nontrivial=len(present) > 0)
            events += exclusive_cases(d)
        finally:
            sys.path.remove(str(d / 'ns'))
            sys.modules.pop('replicat.backends.pc', None)

    def on_reject(t, idx, clause):
        e = t['events'][idx - 1]
        cls = 'any'
        if clause == 'P:InvocationAccepted' and e['option'].startswith('pc.') and 'profile' in e['present'] and 'AttributeError' in e['exit']:
            cls = 'backend option given as a TOML integer or boolean'
        fresh = run.violation(clause, cls, {k: e.get(k) for k in ('option', 'present', 'same', 'cmd', 'consistent', 'expected', 'got', 'exit')})
        return not fresh
    final, states = tlc.validate_loop('OptionsTrace', 'Trace_Options.cfg', [{'events': events}], on_reject, rounds=4000)
    run.add(traces_validated_against_impl=len(events))
    run.sample({k: events[37].get(k) for k in ('option', 'present', 'same', 'cmd', 'consistent', 'expected', 'got')})
    run.coverage['rule'] = ('a case is one invocation of replicat.__main__.main(): option x subset of {cli, env, profile, default} x command x which source (if any) spells out the built-in default, complete '
                            'enumeration by TLC; non-trivial = the option is set in at least one source; plus the mutual-exclusion cases')
    run.assumptions += ['the command handler is replaced by a recorder: what reaches it is the effective value']


def replay(run, path):
    main(run)
