"""C07 - identical data is stored once.

design : Repo.tla DedupExact (quiescent, crash-free) and RepeatNoUpload; spec mutant alwaysUpload
L2     : TLC behaviours replayed, no extra chunk object at command ends
L3     : crash-free histories with content-defined chunking and heavily overlapping data (identical files,
         shared prefixes/suffixes, repeated blocks), repeat snapshots of unchanged trees by the same user, a
         shared-key user and an independent user, concurrency 1..8, fresh process per command; RepoTrace clauses
         UploadOnlyIfAbsent (no payload for a chunk the family already held), DedupExact, NoAlias
"""
from . import repo_common as rc
from .. import harness, repodrv

LEVEL = 'model_checking'
CLAUSES = ['P:UploadOnlyIfAbsent', 'P:RepeatTransfersNothing', 'P:DedupExact', 'P:NoAlias']


def repeats(run, graphs, seeds, concurrents):
    traces = []
    for g in graphs:
        for seed in seeds:
            for conc in concurrents:
                with harness.scratch() as d:
                    s = repodrv.Session(g, d, seed=seed, concurrent=conc)
                    c = repodrv.Content(s.rng, nblocks=6)
                    files = [s.write_file('r%d.bin' % i, c.make() + c.make()) for i in range(5)]
                    files.append(s.write_file('same-as-r0.bin', files[0].read_bytes()))
                    files.append(s.write_file('prefix.bin', files[1].read_bytes() + b'tail' * 7))
                    desc = []
                    for u in s.users + s.users[:1]:
                        o = s.snapshot(u, files)
                        desc.append('snapshot(%s, all)->%s' % (u, o.etype))
                    o = s.snapshot(s.users[-1], files[:3])
                    desc.append('snapshot(%s, subset)->%s' % (s.users[-1], o.etype))
                    t = s.trace(extra={'history': desc, 'opts': {'concurrent': conc}})
                    traces.append(t)
                    run.case(('repeat', g, seed, conc))
    return traces


def fresh_interpreters(run, graphs, seeds):
    """every command in its OWN interpreter (python -m rv.localcmd on the real local backend), each with another PYTHONHASHSEED: what the CLI
    does. Anything that depends on the process - set / dict iteration order of strings, ids, addresses - shows up as new chunk payload for
    unchanged data. The tree contains what makes orders ambiguous: files of equal size with equal names in different directories."""
    import base64
    import json
    import os
    import subprocess
    import sys
    from . import c03_local
    traces = []
    for g in graphs:
        for seed in seeds:
            with harness.scratch() as d:
                s = repodrv.Session(g, d, seed=seed, min_length=64, max_length=256)
                r = s.rng
                files = []
                for i in range(14):
                    files.append(s.write_file('dir%02d/desktop.ini' % i, r.randbytes(90)))                # equal size, equal base name
                    if i % 3 == 0:
                        files.append(s.write_file('dir%02d/notes.txt' % i, r.randbytes(r.choice([90, 200, 1500]))))
                files.append(s.write_file('big.bin', r.randbytes(5000)))
                root = str(d / 'localrepo')
                os.makedirs(root)
                c03_local.export(s.store.objs, root)
                desc = []
                for n, u in enumerate([s.users[0], s.users[0], s.users[-1], s.users[0]]):
                    usr = s.world.users[u]
                    args = {'dir': root, 'cmd': 'snapshot', 'concurrent': 3, 'paths': [str(d / 'src')],
                            'password': base64.b64encode(usr.password).decode() if usr.password else None,
                            'key': base64.b64encode(usr.key).decode() if usr.key else None}
                    jf = str(d / ('args%d.json' % n))
                    json.dump(args, open(jf, 'w'))
                    client = 'interp%d' % n
                    s.np = max(s.np, 1)
                    s._marker('begin', {'want': s.capture(files), 'D': [], 'unknown': False, 'allempty': False, 'p': 1, 'k': 'snap', 'u': u}, client)
                    env = dict(os.environ, PYTHONPATH='/verif', PYTHONDONTWRITEBYTECODE='1', PYTHONHASHSEED=str(1000 + 17 * n + seed))
                    pr = subprocess.run([sys.executable, '-m', 'rv.localcmd', jf], env=env, capture_output=True, timeout=300)
                    objs, _ = c03_local.observe(root)
                    new = [nm for nm in objs if s.store.objs.get(nm) != objs[nm]]
                    for nm in sorted(new, key=lambda x: (x.startswith('snapshots/'), x)):      # chunks, then the snapshot object
                        with s.store.lock:
                            s.store.objs[nm] = objs[nm]
                            s.store.events.append(('put', nm, objs[nm], client))
                    s._marker('end', {'p': 1, 'ok': pr.returncode == 0, 'fault': False, 'etype': '~' if pr.returncode == 0 else pr.stderr[-200:].decode(errors='replace'),
                                      'hung': False}, client)
                    desc.append('snapshot(%s, whole tree) in its own interpreter, hash seed %s -> rc %d, %d new objects' % (u, env['PYTHONHASHSEED'], pr.returncode, len(new)))
                traces.append(s.trace(extra={'history': desc, 'opts': {'interpreters': 'one per command'}}))
                run.case(('fresh-interpreters', g, seed))
    return traces


def main(run):
    quick = run.tier == 'quick'
    rc.design(run, ['mixed', 'shared'] if quick else ['plain', 'same', 'shared', 'indep', 'mixed'],
              mutants=['alwaysUpload'], coverage=not quick)
    rc.l2(run, ['mixed', 'shared'] if quick else ['plain', 'same', 'shared', 'indep', 'mixed'],
          num=10 if quick else 120, depth=45, seed=run.seed + 5, kinds=('extra-chunk',))
    rc.l2_interleaved(run, ['shared', 'indep'] if quick else ['plain', 'same', 'shared', 'indep', 'mixed'], 5 if quick else 60, 40, run.seed + 27, kinds=('extra-chunk',))
    n = 3 if quick else 30
    traces = rc.histories(run, rc.ALL_GRAPHS, range(run.seed * 100, run.seed * 100 + n), 14 if quick else 30, reads=False)
    traces += rc.histories(run, ['shared', 'indep'] if quick else rc.ALL_GRAPHS, range(run.seed * 100 + 90, run.seed * 100 + 90 + (1 if quick else 8)), 12 if quick else 25,
                           reads=False, flavour='s3')           # over the real S3 adapter, paged listings
    traces += repeats(run, rc.ALL_GRAPHS, range(run.seed * 10, run.seed * 10 + (1 if quick else 6)), [1, 3, 8] if quick else [1, 2, 3, 5, 8])
    traces += fresh_interpreters(run, ['plain', 'shared'] if quick else ['plain', 'same', 'shared', 'mixed'], range(run.seed * 10, run.seed * 10 + (1 if quick else 4)))
    rc.validate(run, traces, CLAUSES, label='c07.histories')
    run.coverage['rule'] = ('a case is one crash-free command history or one repeat-snapshot scenario (key graph x seed x concurrency), also with every command in its own interpreter (different hash seeds), '
                            'or one replayed TLC behaviour; non-trivial = more than 10 backend events')
    run.assumptions += ['two identical chunks inside one snapshot may both be uploaded while in flight (object still stored once)',
                        'projection by rv/refcodec.py']


def replay(run, path):
    main(run)
