"""C01 - backup round trip is the identity on file trees.

design : RoundTrip.tla - layout / attribution / plan / apply over symbolic bytes, INVARIANT RoundTripHolds for every tiling,
         argument list (files, the directory, repeats, overlaps) and pre-existing target state in a small scope; the four
         switches (no de-duplication, no entries for untouched files, no truncation, half-open attribution) must each fail.
L2     : TLC enumerates instances (size classes, argument lists, pre-existing state); each is materialised with awkward
         file names and run through the real init / snapshot / restore on a configuration grid (cipher, hash, chunker
         bounds, concurrency, read-piece size).
L3     : what the run produced (restored tree, manifest decoded by the independent reader, cuts) is validated by
         RoundTripTrace.tla; Hypothesis-free seeded random trees (many files, sizes around chunk/piece boundaries, symlinks).
"""
import contextlib
import hashlib
import os
import random
from pathlib import Path

from .. import harness, linefuzz, membackend, refcodec, tlc
from ..harness import rrepo

LEVEL = 'model_checking'
CLAUSES = ['P:ManifestOnce', 'P:ManifestOnlyReached', 'P:Tiling', 'P:SnapshotOk', 'P:RestoreOk', 'P:EveryFileRestored', 'P:Length', 'P:Content',
           'P:Mtime', 'P:NothingElse']

NAMES = ['a b.txt', 'ä-ünï.dat', 'z.bin', 'sub/deep/er.x', 'sub/ q?*.y', "quo'te.t", 'sub/zz/.hidden', 'UPPER', '0', 'tab\tname']
RAW = [b'raw\xff\xfe.bin']

GRID = [
    dict(enc=True, cipher=None, hashing=None, mn=8, mx=32, conc=2, piece=None),
    dict(enc=False, cipher=None, hashing={'name': 'sha2', 'bits': 256}, mn=4, mx=4, conc=1, piece=16),
    dict(enc=True, cipher={'name': 'chacha20_poly1305'}, hashing={'name': 'sha3', 'bits': 512}, mn=5, mx=10, conc=5, piece=64),
    dict(enc=True, cipher={'name': 'aes_gcm', 'key_bits': 128}, hashing={'name': 'blake2b', 'length': 32}, mn=1, mx=4, conc=3, piece=7),
    dict(enc=False, cipher=None, hashing=None, mn=64, mx=256, conc=2, piece=100),
    dict(enc=True, cipher={'name': 'aes_gcm', 'key_bits': 192}, hashing={'name': 'sha2', 'bits': 512}, mn=16, mx=64, conc=8, piece=None),
    dict(enc=True, cipher=None, hashing={'name': 'sha3', 'bits': 224}, mn=12, mx=12, conc=1, piece=24),
    # non-default nonce sizes: what is written must follow the size recorded in config (an independent reader splits nonce | ciphertext by it)
    dict(enc=True, cipher={'name': 'aes_gcm', 'nonce_bits': 128}, hashing=None, mn=8, mx=64, conc=2, piece=40),
    dict(enc=True, cipher={'name': 'aes_gcm', 'key_bits': 128, 'nonce_bits': 64}, hashing={'name': 'blake2b', 'length': 24}, mn=16, mx=48, conc=3, piece=None),
]


class Controller:
    def __init__(self, piece):
        self.piece = piece

    def sync(self, label, fields):
        pass

    def override(self, name, default):
        if name == 'snapshot.piece_size' and self.piece:
            return self.piece
        return default


def size_classes(cfg):
    """monotone map size class -> bytes: 0, 1, just under the alignment, min-ish, max+1, 2*max+3, beyond the read piece"""
    mn, mx, piece = cfg['mn'], cfg['mx'], cfg['piece'] or 16_777_216
    big = 2 * mx + 3
    if piece < 4096:
        big = max(big, piece + 5)
    c = sorted({0, 1, 3, max(mn, 4), mx + 1, big})
    while len(c) < 6:
        c.append(c[-1] + 4)
    return c


def reached(args):
    """independent statement of the files a list of path arguments resolves into (paths as the snapshot records them)"""
    out = []
    for a in args:
        r = os.path.realpath(a)
        if os.path.isdir(r):
            for d, _, fs in os.walk(r, followlinks=True):
                for f in fs:
                    p = os.path.join(d, f)
                    if os.path.isfile(p):
                        out.append(p)
        elif os.path.isfile(r):
            out.append(r)
    seen, uniq = set(), []
    for p in out:
        if p not in seen:
            seen.add(p)
            uniq.append(p)
    return uniq


def round_trip(cfg, root, files, args, pre, rng, label, tree_prefix=b'tree'):
    """files: {path relative to tree: bytes}; args: list of paths (str/bytes) relative to root/src; pre: {rel: state}
    -> record for RoundTripTrace.tla"""
    src = os.path.join(str(root), 'src')
    tree = os.path.join(src, os.fsdecode(tree_prefix)) if tree_prefix else src
    mt = {}
    for rel, data in files.items():
        p = os.path.join(os.fsencode(tree), os.fsencode(rel)) if isinstance(rel, bytes) else os.path.join(tree, rel)
        os.makedirs(os.path.dirname(p), exist_ok=True)
        with open(p, 'wb') as f:
            f.write(data)
        t = 1_500_000_000_000_000_000 + rng.randrange(10 ** 17)
        os.utime(p, ns=(t + 12345, t))
        mt[os.fsdecode(p)] = t
    argpaths = [os.fsdecode(os.path.join(os.fsencode(src), os.fsencode(a))) for a in args]
    want = reached(argpaths)
    want_data = {p: open(p, 'rb').read() for p in want}
    want_mt = {p: os.stat(p).st_mtime_ns for p in want}
    # ids by str() rank, as the snapshot orders them
    order_by_path = sorted(want)
    fid = {p: i + 1 for i, p in enumerate(order_by_path)}
    store = membackend.Store()
    w = harness.World(store=store, concurrent=cfg['conc'], flavour=rng.choice(['plain', 'async']))
    st = harness.settings(encrypted=cfg['enc'], cipher=cfg['cipher'], hashing=cfg['hashing'], min_length=cfg['mn'], max_length=cfg['mx'])
    w.init('a', b'pw', st)
    from replicat import _verif
    _verif.controller = Controller(cfg['piece'])
    # every third multi-worker round trip runs with its threads preempted at random lines of the pipeline functions (rv/linefuzz.py)
    fz = cfg['conc'] > 1 and rng.random() < 0.34
    fseed = rng.randrange(1 << 30)
    try:
        # half of the multi-worker round trips: uploads of chunk objects take longer than existence checks (ordinary storage latency), so
        # the workers finish chunks in another order than they were produced
        from .. import repodrv
        slow = {'backend': w.backend(gate=repodrv.DelayPrefix('data/', 0.003))} if (cfg['conc'] > 1 and rng.random() < 0.5) else {}
        with (linefuzz.fuzz(fseed, linefuzz.SNAPSHOT, q=0.1) if fz else contextlib.nullcontext()):
            o = w.snapshot('a', argpaths, **slow)
    finally:
        _verif.controller = None
    rec = {'label': label, 'cfg': {k: v for k, v in cfg.items()}, 'align': 4, 'snapshot_ok': bool(o.ok), 'restore_ok': False, 'files': [], 'manifest': [],
           'unknown_entries': 0, 'extra': False, 'untouched': True, 'order': [], 'cuts': [], 'args': [os.fsdecode(a) if isinstance(a, bytes) else a for a in args],
           'etype': o.etype}
    for p in order_by_path:
        rec['files'].append({'id': fid[p], 'size': len(want_data[p]), 'present': False, 'len': 0, 'content': False, 'mtime': False, 'pre': 'absent'})
    if not o.ok:
        return rec
    # ---- the manifest, through the independent reader
    keys = refcodec.Keys(refcodec.loads(store.objs['config']), w.users['a'].key, w.users['a'].password)
    sloc = [n for n in store.objs if n.startswith('snapshots/')][0]
    chunks, data = keys.decode_snapshot(store.objs[sloc])
    clen, cplain = {}, {}
    for i, dg in enumerate(chunks):
        try:
            cplain[i] = keys.decode_chunk(store.objs[keys.chunk_location(dg)], dg)
            clen[i] = len(cplain[i])
        except (KeyError, refcodec.FormatError):
            clen[i] = -1
    counter_len = {}
    for f in data['files']:
        p = f['path']
        refs, ok, parts = [], True, []
        for r in sorted(f['chunks'], key=lambda r: r['counter']):
            L = clen.get(r['index'], -1)
            refs.append([r['counter'], r['range'][0], r['range'][1], L])
            counter_len[r['counter']] = L
            if L >= 0:
                parts.append(cplain[r['index']][r['range'][0]:r['range'][1]])
            else:
                ok = False
        if p not in fid:
            rec['unknown_entries'] += 1
            continue
        whole = b''.join(parts)
        ok = ok and whole == want_data[p] and (f.get('digest') is None or keys.hash(whole) == f['digest'])
        rec['manifest'].append({'id': fid[p], 'refs': refs, 'content': bool(ok)})
    # stream order by (size, str(path)); cuts only if every counter is known
    rec['order'] = [fid[p] for p in sorted(want, key=lambda p: (len(want_data[p]), p))]
    if counter_len and set(counter_len) == set(range(1, max(counter_len) + 1)) and all(v >= 0 for v in counter_len.values()):
        rec['cuts'] = [counter_len[k] for k in range(1, max(counter_len) + 1)]
    # ---- restore into a target with pre-existing content
    tgt = os.path.join(str(root), 'target')
    os.makedirs(tgt)
    other = os.path.join(tgt, 'unrelated', 'keep.me')
    os.makedirs(os.path.dirname(other))
    open(other, 'wb').write(b'do not touch')
    os.utime(other, ns=(1_400_000_000_000_000_000, 1_400_000_000_000_000_000))
    for p in want:
        state = pre.get(p, 'absent')
        if state == 'absent':
            continue
        q = harness.restored_path(tgt, p)
        os.makedirs(os.path.dirname(q), exist_ok=True)
        n = len(want_data[p])
        junk = {'shorter': max(n - 1, 0), 'same': n, 'twin': n, 'longer': n + 2 + rng.randrange(40)}[state]
        open(q, 'wb').write(bytes([0xEE]) * junk)
        if state == 'twin':
            # other bytes, same length, and the modification time of the snapshotted file (a damaged times-preserving copy)
            mt = os.stat(p).st_mtime_ns
            os.utime(q, ns=(mt, mt))
        rec['files'][fid[p] - 1]['pre'] = state
    with (linefuzz.fuzz(fseed + 1, linefuzz.RESTORE, q=0.1) if fz else contextlib.nullcontext()):
        o2 = w.restore('a', tgt, concurrent=cfg['conc'])
    rec['restore_ok'] = bool(o2.ok)
    rec['etype'] = o2.etype
    expected_paths = {harness.restored_path(tgt, p): p for p in want}
    for q, p in expected_paths.items():
        e = rec['files'][fid[p] - 1]
        if os.path.isfile(q) and not os.path.islink(q):
            b = open(q, 'rb').read()
            e.update(present=True, len=len(b), content=(b == want_data[p]), mtime=(os.stat(q).st_mtime_ns == want_mt[p]))
    for d, _, fs in os.walk(tgt):
        for f in fs:
            q = os.path.join(d, f)
            if q != other and q not in expected_paths:
                rec['extra'] = True
    rec['untouched'] = os.path.isfile(other) and open(other, 'rb').read() == b'do not touch' and os.stat(other).st_mtime_ns == 1_400_000_000_000_000_000
    return rec


def classify(rec):
    sizes = [f['size'] for f in rec['files']]
    if sizes and all(s == 0 for s in sizes):
        return 'all reached files empty'
    if rec.get('dup_args'):
        return 'a file reached more than once through the arguments'
    if any(f['pre'] == 'longer' for f in rec['files']):
        return 'longer file pre-existing at a restored path'
    return 'any'


def content(rng, n, kind):
    if kind == 'zero':
        return bytes(n)
    if kind == 'rep':
        return (b'ABCDEFGH' * (n // 8 + 1))[:n]
    if kind == 'sandwich':
        # runs of zeros around stretches of data (disk images, sparse files): a chunk repeats AFTER a different new chunk
        out, z = b'', True
        while len(out) < n:
            k = rng.randrange(1, max(2, n // 3))
            out += bytes(k) if z else rng.randbytes(k)
            z = not z
        return out[:n]
    return rng.randbytes(n)


def instances(run, quick):
    """(sizes, args, pre) triples enumerated by TLC from RoundTrip.tla"""
    text = open(os.path.join(tlc.SPEC_DIR, 'MC_RoundTrip.cfg')).read()
    text = text.replace('Sizes = {0, 1, 4, 5}', 'Sizes = {0, 1, 2, 3, 4, 5}').replace('MaxCuts = 2', 'MaxCuts = 0').replace('EmitInstances = FALSE', 'EmitInstances = TRUE')
    text = text.replace('INVARIANT RoundTripHolds\n', '').replace('INVARIANT TilingHolds\n', '')
    res = tlc.run_tlc('RoundTrip', 'emit.cfg', cfg_text=text, workers=4, timeout=1200)
    if not res.completed:
        raise tlc.MachineryError('instance enumeration failed: %s' % res.out[-1500:])
    inst = res.prints('I')
    run.add(instances_enumerated=len(inst))
    return inst


def main(run):
    quick = run.tier == 'quick'
    rng = random.Random(run.seed)
    res = tlc.check_design('RoundTrip', 'MC_RoundTrip_small.cfg' if quick else 'MC_RoundTrip.cfg', timeout=7000)
    run.add(states=res.distinct, transitions=res.generated)
    base = open(os.path.join(tlc.SPEC_DIR, 'MC_RoundTrip_tiny.cfg')).read()
    caught = []
    for sws in (('Dedupe',), ('EmptyEntries',), ('TruncateOnRestore',), ('ClosedIntervals', 'EmptyEntries')):
        text = base
        for sw in sws:
            text = text.replace('%s = TRUE' % sw, '%s = FALSE' % sw)
        tlc.check_design('RoundTrip', 'mut.cfg', cfg_text=text, expect_violation='RoundTripHolds', timeout=1200)
        caught.append('not ' + ' and not '.join(sws))
    # half-open attribution alone is benign once untouched files get their entry anyway: must still hold
    tlc.check_design('RoundTrip', 'benign.cfg', cfg_text=base.replace('ClosedIntervals = TRUE', 'ClosedIntervals = FALSE'), timeout=1200)
    run.add(spec_mutants_caught=caught)
    inst = instances(run, quick)
    rng.shuffle(inst)
    inst = inst[:60 if quick else 1500]
    recs = []
    for k, (sizes, args, pre) in enumerate(inst):
        cfg = GRID[k % len(GRID)]
        classes = size_classes(cfg)
        # file 1 lives in the sibling directory "tree-2" (its path extends the path of "tree" as a string), files 2 and 3 in "tree"
        inner = sorted(rng.sample(NAMES, 2))
        if rng.random() < 0.3:
            inner[rng.randrange(2)] = RAW[0]
        first = rng.choice(NAMES)
        with harness.scratch() as d:
            key = lambda n: os.fsdecode(os.path.join(os.fsencode(str(d)), b'src', os.fsencode(n)))  # noqa: E731
            inner = sorted(inner, key=lambda n: key(os.path.join(b'tree', os.fsencode(n))))
            rels = [os.path.join(b'tree-2', os.fsencode(first))] + [os.path.join(b'tree', os.fsencode(n)) for n in inner]
            assert sorted(rels, key=key) == rels
            files = {}
            kinds = ['rand', 'zero', 'rep', 'same', 'sandwich']
            shared = content(rng, 4096, 'rand')
            for i, rel in enumerate(rels):
                sz = classes[sizes[i]]
                kd = rng.choice(kinds)
                files[rel] = shared[:sz] if kd == 'same' else content(rng, sz, kd)
            a = [(b'tree' if x == 0 else b'tree-2' if x == 100 else rels[x - 1]) for x in args]
            pmap = {key(rels[i]): pre[i] for i in range(3)}
            rec = round_trip(cfg, d, files, a, pmap, rng, 'tlc-instance', tree_prefix=b'')
            nreach = sum(2 if x == 0 else 1 for x in args)
            rec['dup_args'] = len(reached([key(x) for x in a])) < nreach
            rec['instance'] = [list(sizes), list(args), list(pre)]
            recs.append(rec)
            run.case(('inst', tuple(sizes), tuple(args), tuple(pre), k % len(GRID)), nontrivial=any(classes[s] > 0 for s in sizes))
    # random larger trees, symlinks, piece-size boundaries
    for k in range(10 if quick else 200):
        cfg = GRID[(k * 3 + 1) % len(GRID)]
        with harness.scratch() as d:
            n = rng.randrange(1, 12 if quick else 40)
            pool = [x for x in NAMES] + ['g%02d/f%d' % (i % 5, i) for i in range(40)]
            names = rng.sample(pool, min(n, len(pool)))
            piece = cfg['piece'] or 64
            interesting = [0, 1, 3, 4, 5, cfg['mn'], cfg['mx'] - 1, cfg['mx'], cfg['mx'] + 1, 2 * cfg['mx'], 2 * cfg['mx'] + 1, piece - 1, piece, piece + 1, 3 * piece + 2, 1000]
            files = {nm: content(rng, rng.choice(interesting), rng.choice(['rand', 'zero', 'rep', 'sandwich', 'sandwich'])) for nm in names}
            src = d / 'src' / 'tree'
            args = ['tree']
            if rng.random() < 0.5:
                args = [os.path.join('tree', nm) for nm in rng.sample(names, rng.randrange(1, len(names) + 1))]
            if rng.random() < 0.5:
                # more than one directory: nested ones, and siblings whose names extend each other
                args = rng.sample(['tree', 'tree/sub', 'tree/g01', 'tree/g0', 'tree/sub/deep'], rng.randrange(1, 4)) + args[:2]
                files.update({'g0/x.bin': content(rng, 50, 'rand'), 'g01/y.bin': content(rng, 70, 'rand'), 'sub/deep/er.x': content(rng, 9, 'rand'), 'sub/top': b'top'})
            # some of the restored paths already exist in the target: shorter / same length / longer / same length AND same mtime
            rpre = {os.path.join(str(d), 'src', 'tree', nm): rng.choice(['shorter', 'same', 'twin', 'longer'])
                    for nm in names if len(files[nm]) > 0 and rng.random() < 0.3}
            rec = round_trip(cfg, d, files, args, rpre, rng, 'random-tree') if rng.random() < 0.7 else None
            if rec is None:
                # symlinks: a link to a file given as argument, and a link inside the walked directory
                os.makedirs(src, exist_ok=True)
                first = names[0]
                fp = src / first
                fp.parent.mkdir(parents=True, exist_ok=True)
                fp.write_bytes(files[first])
                os.symlink(fp, d / 'src' / 'arglink')
                os.symlink(fp, src / 'inner-link')
                rec = round_trip(cfg, d, files, ['arglink', 'tree'], {}, rng, 'symlinks')
                rec['dup_args'] = False
            else:
                rec['dup_args'] = False
            recs.append(rec)
            run.case(('rand', k, len(files)))
    if True:
        # default read-piece size (16 MiB) and default chunker bounds: file sizes around the piece size (code paths that depend on
        # real sizes - thresholds, buffering, more than one read piece per file - are invisible at miniature scale)
        MiB = 1 << 20
        for k, sizes in enumerate([[16 * MiB + 3, 2 * MiB, 1_300_000, 0], [2 * MiB, 300_001]] if quick else [[16 * MiB - 1, 100], [16 * MiB, 16 * MiB + 3, 0], [2 * 16 * MiB + 5, 7], [16 * MiB + 3, 2 * MiB, 1_300_000, 0], [4 * MiB, MiB], [9 * MiB + 4096]]):
            cfg = dict(enc=bool(k % 2), cipher=None, hashing=None, mn=128_000, mx=5_120_000, conc=3, piece=None)
            with harness.scratch() as d:
                files = {'big%d.bin' % i: content(rng, n, 'rand' if i == 0 else 'rep') for i, n in enumerate(sizes)}
                rec = round_trip(cfg, d, files, ['tree'], {}, rng, 'piece-size-scale')
                rec['dup_args'] = False
                recs.append(rec)
                run.case(('piece', k, tuple(sizes)))
    for r in recs:
        r['check'] = CLAUSES
        size = {f['id']: f['size'] for f in r['files']}
        starts, pos = [], 0
        for f in r['order']:
            starts.append(pos)
            pos += size[f] + (-size[f]) % r['align']
        r['starts'] = starts
        cum, t = [], 0
        for c in r['cuts']:
            t += c
            cum.append(t)
        r['cum'] = cum
    verdicts, res = tlc.validate_traces('RoundTripTrace', 'Trace_Repo.cfg', recs, timeout=3000)
    run.add(traces_validated_against_impl=len(recs))
    for tid, v in sorted(verdicts.items()):
        clause, drift = v[1], (v[2][0] if v[2] else 'ok')
        r = recs[tid - 1]
        if drift != 'ok':
            run.note_drift(drift)
        if clause != 'ok':
            run.violation(clause, classify(r), {k: r[k] for k in ('label', 'cfg', 'args', 'files', 'etype', 'extra', 'untouched') if k in r} | {'instance': r.get('instance')})
    run.sample({k: recs[0][k] for k in ('label', 'cfg', 'args', 'files', 'manifest', 'cuts', 'order')})
    run.coverage['rule'] = ('a case is one real init/snapshot/restore round trip: a TLC-enumerated instance (size classes x argument list x pre-existing '
                            'target state, 3 files with awkward names) on one point of the configuration grid, or a random tree / symlink scenario; '
                            'non-trivial = at least one non-empty file')
    run.assumptions += ['files do not change while the snapshot runs', 'small-scope bounds of RoundTrip.tla (<= 3 files, <= 2 cuts)',
                        'manifest decoded by rv/refcodec.py']


def replay(run, path):
    main(run)
