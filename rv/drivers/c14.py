"""C14 - what replicat writes follows the documented repository format.

direction 1 (replicat writes, the independent reader decodes): every object written by real init / add-key / snapshot runs on a
  grid of ciphers, hashes and chunker bounds is decoded by rv/refcodec.py (which imports nothing from replicat); the relations it
  could verify by recomputation are validated by FormatTrace.tla; the recorded file ranges are checked to tile each file exactly
  (P:Tiling of RoundTripTrace.tla, evaluated by TLC on the integer ranges).
direction 2 (the independent writer writes, replicat restores): for tilings enumerated by TLC from RoundTrip.tla the independent
  writer builds a repository (both metadata variants, both attribution conventions); the real restore and list-files must
  reproduce the files.
"""
import json
import os
import random

from . import c01
from .. import repodrv, harness, membackend, refcodec, tlc

LEVEL = 'translation_validation'


def decode_all(store_objs, keys_by_user, key_files, encrypted):
    """-> FormatTrace events, one per object (+ key files)"""
    evs = []
    anyk = next(iter(keys_by_user.values()))
    referenced, tables = set(), {}
    snaps = {}
    for loc, blob in store_objs.items():
        if loc.startswith('snapshots/'):
            area, tag, name = refcodec.split_location(loc)
            ver = []
            if anyk.hash(blob).hex() == name:
                ver.append('nameIsHashOfBytes')
            if encrypted and refcodec.is_hex(name) and anyk.mac(bytes.fromhex(name)).hex() == tag:
                ver.append('tagIsMacOfName')
            if not encrypted and tag == name:
                ver.append('tagIsName')
            try:
                body = refcodec.loads(blob)
                if set(body) == {'chunks', 'data'}:
                    ver.append('bytesTaggedJson')
                if not encrypted and isinstance(body['chunks'], list) and isinstance(body['data'], dict):
                    ver.append('plainJson')
            except Exception:  # noqa: BLE001
                body = None
            chunks = data = None
            for u, k in keys_by_user.items():
                try:
                    ch, da = k.decode_snapshot(blob)
                except Exception:  # noqa: BLE001
                    continue
                if ch is not None:
                    chunks = ch
                    if encrypted:
                        ver.append('tableUnderSharedSubkey')
                if da is not None:
                    data = da
                    if encrypted:
                        ver.append('privateUnderUserKey')
            if chunks is not None and data is not None:
                v = refcodec.View(store_objs, keys_by_user)
                fam = anyk.family_id
                if not v.check_tiling(data, chunks, fam):
                    ver.append('tilesFiles')
                for dg in chunks:
                    referenced.add(anyk.chunk_location(dg))
                    tables[anyk.chunk_location(dg)] = dg
            evs.append({'kind': 'snapshot', 'name': loc[:30], 'verified': sorted(set(ver))})
    for loc, blob in store_objs.items():
        if loc.startswith('data/'):
            area, tag, name = refcodec.split_location(loc)
            ver = []
            dg = tables.get(loc)
            if dg is not None:
                ver.append('referenced')
                nm, tg = anyk.chunk_name_tag(dg)
                if encrypted:
                    if nm == name:
                        ver.append('nameIsMacOfDigest')
                    if anyk.mac(bytes.fromhex(name)).hex() == tag:
                        ver.append('tagIsMacOfName')
                    try:
                        pt = anyk.cipher.decrypt(blob, anyk.shared_subkey(dg))
                        ver.append('keyIsKdfOfSharedAndDigest')
                        if anyk.hash(pt) == dg:
                            ver.append('plainHashesToDigest')
                    except refcodec.FormatError:
                        pass
                else:
                    if name == dg.hex():
                        ver.append('nameIsDigest')
                    if tag == name:
                        ver.append('tagIsName')
                    if anyk.hash(blob) == dg:
                        ver.append('plainHashesToDigest')
            evs.append({'kind': 'chunk', 'name': loc[:30], 'verified': sorted(set(ver))})
        elif loc == 'config':
            ver = []
            try:
                cfg = json.loads(blob)
                allowed = {'hashing', 'chunking', 'encryption'}
                if set(cfg) <= allowed and (cfg.get('encryption') is None or set(cfg['encryption']) == {'cipher'}):
                    ver.append('onlyAlgorithmSettings')
            except Exception:  # noqa: BLE001
                pass
            evs.append({'kind': 'config', 'name': loc, 'verified': ver})
        elif not loc.startswith('snapshots/'):
            evs.append({'kind': 'other', 'name': loc[:30], 'verified': []})
    for u, (kf, pw) in key_files.items():
        ver = []
        try:
            ko = refcodec.loads(kf)
            if isinstance(ko.get('kdf_params'), bytes) and isinstance(ko.get('kdf'), dict):
                ver.append('kdfParamsReadable')
            k = refcodec.Keys(json.loads(store_objs['config']), ko, pw)
            if isinstance(ko['private'], bytes) and {'shared_key', 'mac_params', 'chunker_params'} <= set(k.private):
                ver.append('privateUnderUserKey')
        except Exception:  # noqa: BLE001
            pass
        evs.append({'kind': 'key', 'name': 'key of ' + u, 'verified': ver})
    return evs


def direction1(run, quick, rng):
    traces = []
    grid = c01.GRID if not quick else c01.GRID[:4] + c01.GRID[-2:]
    wide = {0} if quick else {0, 1, 2}
    for gi, cfg in enumerate(grid):
        for rep in range(1 if quick else 4):
            with harness.scratch() as d:
                store = membackend.Store()
                w = harness.World(store=store, concurrent=cfg['conc'])
                st = harness.settings(encrypted=cfg['enc'], cipher=cfg['cipher'], hashing=cfg['hashing'], min_length=cfg['mn'], max_length=cfg['mx'])
                w.init('a', b'pw-a', st)
                if cfg['enc']:
                    w.add_key('a', 'b', b'pw-b', shared=True, settings_={'encryption': {'kdf': dict(harness.FAST_KDF)}})
                users = sorted(w.users)
                tree = {('f%d.bin' % i): rng.randbytes(rng.choice([0, 1, 5, cfg['mx'], 3 * cfg['mx'] + 1, 500])) for i in range(4)}
                # names that are not ASCII, and one that is not even valid UTF-8 (legal on Linux): the stored JSON must stay decodable by a strict reader
                # zero runs around data: a chunk that repeats after a different new chunk, with uploads slower than existence checks
                tree['image.raw'] = b''.join((bytes(3 * cfg['mx']) if i % 2 == 0 else rng.randbytes(2 * cfg['mx'] + 3)) for i in range(7))
                tree['caf\u00e9 \u6f22.bin'] = rng.randbytes(9)
                tree[b'scan-\xff\xfe-1998.dat'] = rng.randbytes(11)
                if rep == 0 and gi in wide:
                    # a WIDE snapshot: hundreds of files, a private section of well over 64 KiB (size-dependent encodings are invisible in small ones)
                    tree.update({('w/%02d/n%03d.dat' % (i % 7, i)): rng.randbytes(rng.choice([0, 3, 17, 40])) for i in range(420)})
                harness.write_tree(d / 'src', tree)
                for u in users:
                    # the tree, plus things inside it given again as arguments of their own (a file reached twice must be recorded once)
                    paths = [d / 'src'] + ([d / 'src' / 'f0.bin', d / 'src' / 'image.raw'] if u == users[-1] else [])
                    o = w.snapshot(u, paths, note=rng.choice([None, 'a note']), backend=w.backend(gate=repodrv.DelayPrefix('data/', 0.003)))
                    if not o.ok:
                        raise tlc.MachineryError('snapshot failed in C14 driver: %r' % o.exc)
                config = refcodec.loads(store.objs['config'])
                key_files = {u: (w.users[u].key, w.users[u].password) for u in users if w.users[u].key}
                try:
                    keys = {u: refcodec.Keys(config, w.users[u].key, w.users[u].password) for u in users}
                except refcodec.FormatError:
                    # a key file that does not open under the scheme recorded in config: a verdict (key: privateUnderUserKey), not a harness failure
                    evs = []
                    for u, (kf, pw) in sorted(key_files.items()):
                        ver = []
                        try:
                            ko = refcodec.loads(kf)
                            if isinstance(ko.get('kdf_params'), bytes) and isinstance(ko.get('kdf'), dict):
                                ver.append('kdfParamsReadable')
                            refcodec.Keys(config, kf, pw)
                            ver.append('privateUnderUserKey')
                        except Exception:  # noqa: BLE001
                            pass
                        evs.append({'kind': 'key', 'name': 'key of ' + u, 'verified': ver})
                else:
                    evs = decode_all(store.objs, keys, key_files, cfg['enc'])
                traces.append({'encrypted': bool(cfg['enc']), 'cfg': {k: v for k, v in cfg.items()}, 'events': evs})
                run.case(('d1', gi, rep), nontrivial=len(evs) > 3)
    traces += big_chunks(run, rng)
    verdicts, res = tlc.validate_traces('FormatTrace', 'Trace_Repo.cfg', traces)
    for tid, v in sorted(verdicts.items()):
        if v[1] != 'ok':
            t = traces[tid - 1]
            run.violation(v[1], 'any', {'cfg': t['cfg'], 'event': t['events'][v[0] - 1]})
    run.add(programs=len(traces), objects_decoded=sum(len(t['events']) for t in traces))
    run.sample({'direction': 'replicat writes / independent reader', 'cfg': traces[0]['cfg'], 'events': traces[0]['events'][:6]})
    return len(traces)


def big_chunks(run, rng):
    """the default chunker on low-entropy data: chunks of exactly max_length (5.12 MB) - single encryptions and hashes of more than 4 MiB
    must still be what the documentation says (one nonce | one AEAD ciphertext; the digest of the whole chunk)"""
    traces = []
    for enc in (True, False):
        with harness.scratch() as d:
            store = membackend.Store()
            w = harness.World(store=store, concurrent=2)
            w.init('a', b'pw-a', harness.settings(encrypted=enc))
            harness.write_tree(d / 'src', {'zeros.img': bytes(11_000_000), 'tail.bin': rng.randbytes(70_000)})
            o = w.snapshot('a', [d / 'src'])
            if not o.ok:
                raise tlc.MachineryError('snapshot failed in C14 driver: %r' % o.exc)
            config = refcodec.loads(store.objs['config'])
            key_files = {'a': (w.users['a'].key, w.users['a'].password)} if w.users['a'].key else {}
            keys = {'a': refcodec.Keys(config, w.users['a'].key, w.users['a'].password)}
            evs = decode_all(store.objs, keys, key_files, enc)
            traces.append({'encrypted': enc, 'cfg': {'chunker': 'default', 'data': '11 MB of zeros'}, 'events': evs})
            run.case(('d1-big-chunks', enc))
    return traces


def direction2(run, quick, rng):
    """tilings enumerated by TLC -> independent writer -> replicat restores"""
    text = open(os.path.join(tlc.SPEC_DIR, 'MC_RoundTrip_tiny.cfg')).read()
    text = text.replace('INVARIANT Emit', 'INVARIANT EmitTilings').replace('EmitInstances = FALSE', 'EmitInstances = TRUE')
    text = text.replace('INVARIANT RoundTripHolds\n', '').replace('INVARIANT TilingHolds\n', '')
    if not quick:
        text = text.replace('MaxCuts = 1', 'MaxCuts = 2')
    res = tlc.run_tlc('RoundTrip', 'emit2.cfg', cfg_text=text, workers=4, timeout=1800)
    if not res.completed:
        raise tlc.MachineryError('tiling enumeration failed: ' + res.out[-1200:])
    tilings = res.prints('J')
    seen, uniq = set(), []
    for size, stream, cuts in tilings:
        key = (tuple(size), tuple(stream), tuple(sorted(cuts)))
        if key not in seen:
            seen.add(key)
            uniq.append((size, stream, sorted(cuts)))
    rng.shuffle(uniq)
    uniq = uniq[:40 if quick else 1200]
    recs = []
    for k, (size, stream, cuts) in enumerate(uniq):
        cfg = c01.GRID[k % len(c01.GRID)]
        with harness.scratch() as d:
            store = membackend.Store()
            w = harness.World(store=store, concurrent=cfg['conc'])
            st = harness.settings(encrypted=cfg['enc'], cipher=cfg['cipher'], hashing=cfg['hashing'], min_length=cfg['mn'], max_length=cfg['mx'])
            w.init('a', b'pw-a', st)
            try:
                keys = refcodec.Keys(refcodec.loads(store.objs['config']), w.users['a'].key, w.users['a'].password)
            except refcodec.FormatError:
                # the key file replicat wrote does not open under the scheme recorded in config (already a direction-1 verdict where the grid
                # point is decoded); the independent writer cannot produce a repository for it
                run.violation('P:Format:key:privateUnderUserKey', 'any', {'cfg': cfg, 'direction': 'independent writer: key file of init unreadable'})
                continue
            legacy = bool(k % 2)
            sf, want = [], {}
            for f in stream:
                path = '/orig/tree/file-%d .bin' % f
                data = rng.randbytes(size[f - 1]) if k % 3 else bytes(size[f - 1])
                mt = (1_600_000_000 + rng.randrange(10 ** 6)) * 10 ** 9 + (0 if legacy else rng.randrange(10 ** 9))
                md = {'st_mode': 0o100644, 'st_uid': 0, 'st_gid': 0, 'st_size': len(data), 'st_atime_ns': mt, 'st_mtime_ns': mt, 'st_ctime_ns': mt}
                sf.append((path, data, md))
                want[path] = (data, mt)
            objs = refcodec.write_repository(keys, sf, cuts, timestamp='2031-05-06 07:08:09', legacy_metadata=legacy,
                                             closed_intervals=bool((k // 2) % 2 == 0) or any(s == 0 for s in size), note='independent')
            for loc, blob in objs.items():
                store.objs[loc] = blob
            tgt = d / 'target'
            tgt.mkdir()
            o = w.restore('a', tgt)
            tree = harness.read_tree(tgt) if o.ok else {}
            files = []
            for i, (path, (data, mt)) in enumerate(sorted(want.items())):
                rel = path[1:]
                got = tree.get(rel)
                files.append({'id': i + 1, 'size': len(data), 'present': got is not None, 'len': len(got[0]) if got else 0,
                              'content': bool(got and got[0] == data), 'mtime': bool(got and got[1] == mt), 'pre': 'absent'})
            o2 = w.list_files('a', header=False)
            listed = sorted(line.split('\t')[1].strip() for line in o2.out.splitlines()) if o2.ok else None
            recs.append({'label': 'independent-writer', 'cfg': dict(cfg), 'align': 4, 'snapshot_ok': True, 'restore_ok': bool(o.ok) and listed == sorted(want),
                         'files': files, 'manifest': [], 'unknown_entries': 0, 'extra': len(tree) > len(want), 'untouched': True, 'order': [], 'cuts': [],
                         'starts': [], 'cum': [], 'args': [], 'etype': o.etype, 'legacy': legacy, 'tiling': [list(size), list(stream), list(cuts)],
                         'check': ['P:RestoreOk', 'P:EveryFileRestored', 'P:Length', 'P:Content', 'P:Mtime', 'P:NothingElse']})
            run.case(('d2', tuple(size), tuple(stream), tuple(cuts), k % len(c01.GRID), legacy), nontrivial=sum(size) > 0)
    verdicts, res = tlc.validate_traces('RoundTripTrace', 'Trace_Repo.cfg', recs)
    for tid, v in sorted(verdicts.items()):
        if v[1] != 'ok':
            r = recs[tid - 1]
            run.violation('W:' + v[1][2:], 'legacy metadata' if r['legacy'] else 'any', {k_: r[k_] for k_ in ('cfg', 'files', 'etype', 'tiling', 'legacy')})
    run.sample({'direction': 'independent writer / replicat restores', 'tiling [sizes, stream order, cuts]': recs[0]['tiling'], 'files': recs[0]['files']})
    return len(recs)


def main(run):
    quick = run.tier == 'quick'
    rng = random.Random(run.seed + 14)
    n1 = direction1(run, quick, rng)
    n2 = direction2(run, quick, rng)
    run.add(programs=n2, disagreements_checked=n1 + n2)
    run.coverage['rule'] = ('a program is one repository: written by replicat on one grid point and decoded object by object by the independent reader, '
                            'or written by the independent writer for one TLC-enumerated tiling (sizes x stream order x cuts, both metadata variants) '
                            'and restored by replicat')
    run.assumptions += ['rv/refcodec.py follows the documented scheme (README) and imports nothing from replicat', 'primitives (AEAD, BLAKE2b, SHA-2/3, scrypt) from cryptography/hashlib']


def replay(run, path):
    main(run)
