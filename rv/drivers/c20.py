"""C20 - the bandwidth limit is respected and transparent to the data.

design : RateLimit.tla - reads with latencies, the shared debt under the lock, cap / threshold, exact sleeps, every interleaving of K streams in
         small scope; RateRespected as a leaky bucket (= all windows), DebtBounded, LockSound; mutants halfExpected, sleepUnlocked, noDebt.
binding: the real RateLimitedIO and wrappers run under a virtual clock (threads, I/O latencies and sleeps in virtual time); every completed read /
         write is logged with its return time and byte count in ticks (L = 2^20 B/s, one tick = 2^-20 s: all quantities are exact integers and exact
         binary floats) and validated by RateLimitTrace.tla for every window; plus whole snapshot / restore runs with rate_limit, and the
         transparency clauses (bytes unaltered, seek / tell / truncate forwarded).
"""
import io
import os
import random
import threading

from .. import harness, tlc, vtime

LEVEL = 'model_checking'
L = 1 << 20


class SlowFile(io.BytesIO):
    """underlying stream whose reads / writes take virtual time"""

    def __init__(self, data, vt, lats):
        super().__init__(data)
        self.vt, self.lats = vt, lats

    def read(self, n=-1):
        self.vt.sleep(next(self.lats))
        return super().read(n)

    def write(self, b):
        self.vt.sleep(next(self.lats))
        return super().write(b)


def lat_iter(rng, choices):
    while True:
        yield rng.choice(choices)


def scenario(rng, k, nops, sizes, lat_choices, mode):
    """k streams on one limiter, each doing nops reads (or writes); -> trace"""
    from replicat import utils
    vt = vtime.VTime()
    real_time = utils.time

    class T:
        perf_counter = staticmethod(vt.perf_counter)
        sleep = staticmethod(vt.sleep)
    lim = utils.RateLimitedIO(L)
    lim._read_lock = vt.lock()
    lim._write_lock = vt.lock()
    utils.time = T
    events, intact, seekok = [], [True], [True]
    elock = threading.Lock()
    try:
        def worker(i):
            vt.enter()
            try:
                r = random.Random(rng.random())
                total = sum(r.choice(sizes) for _ in range(nops))
                data = r.randbytes(total)
                raw = SlowFile(data if mode == 'read' else b'', vt, lat_iter(r, lat_choices))
                w = lim.wrap(raw)
                got, pos = [], 0
                rewinds = 0
                for _ in range(nops * 3):
                    d = r.choice(sizes)
                    if mode == 'read' and got and rewinds < 2 and r.random() < 0.12:
                        # a failed attempt: the caller rewinds the stream and sends it again (what the backends do before a retry);
                        # bytes that pass a second time are bytes that pass
                        if w.seek(0) != 0:
                            seekok[0] = False
                        got, rewinds = [], rewinds + 1
                    if mode == 'read':
                        b = w.read(d)
                        if not b:
                            break
                        got.append(b)
                    else:
                        chunk = data[pos:pos + d]
                        if not chunk:
                            break
                        w.write(chunk)
                        pos += len(chunk)
                        b = chunk
                    with elock:
                        events.append({'a': 'deliver', 's': i, 'n': len(b), 't': int(round(vt.now * L))})
                final = b''.join(got) if mode == 'read' else raw.getvalue()
                if final != data:
                    intact[0] = False
                # seek / tell / truncate act on the underlying stream
                if w.seek(3) != 3 or raw.tell() != 3 or w.tell() != 3:
                    seekok[0] = False
                w.truncate(2)
                if len(raw.getvalue()) != 2:
                    seekok[0] = False
            finally:
                vt.leave()
        ts = [threading.Thread(target=worker, args=(i + 1,)) for i in range(k)]
        for t in ts:
            t.start()
        for t in ts:
            t.join(60)
        hung = any(t.is_alive() for t in ts)
    finally:
        utils.time = real_time
    events.sort(key=lambda e: e['t'])
    events.append({'a': 'done', 'intact': intact[0] and not hung, 'seekok': seekok[0]})
    return {'k': k, 'dmax': max(sizes), 'cap': L // 2, 'events': events, 'mode': mode, 'sizes': sizes, 'lats': lat_choices}


def small_streams(rng, k, m, d, lat_choices):
    """k threads on one limiter, each reading m SHORT streams one after the other with read(d): every stream is shorter than the read size
    (a chunk shorter than the transfer piece), so every read comes back short - thousands of chunks behave like this at a high limit"""
    from replicat import utils
    vt = vtime.VTime()
    real_time = utils.time

    class T:
        perf_counter = staticmethod(vt.perf_counter)
        sleep = staticmethod(vt.sleep)
    lim = utils.RateLimitedIO(L)
    lim._read_lock = vt.lock()
    lim._write_lock = vt.lock()
    utils.time = T
    events, intact = [], [True]
    elock = threading.Lock()
    try:
        def worker(i):
            vt.enter()
            try:
                r = random.Random(rng.random())
                for _ in range(m):
                    data = r.randbytes(r.randrange(max(1, d // 3), d))
                    w = lim.wrap(SlowFile(data, vt, lat_iter(r, lat_choices)))
                    got = []
                    while True:
                        b = w.read(d)
                        if not b:
                            break
                        got.append(b)
                        with elock:
                            events.append({'a': 'deliver', 's': i, 'n': len(b), 't': int(round(vt.now * L))})
                    if b''.join(got) != data:
                        intact[0] = False
            finally:
                vt.leave()
        ts = [threading.Thread(target=worker, args=(i + 1,)) for i in range(k)]
        for t in ts:
            t.start()
        for t in ts:
            t.join(60)
        hung = any(t.is_alive() for t in ts)
    finally:
        utils.time = real_time
    events.sort(key=lambda e: e['t'])
    events.append({'a': 'done', 'intact': intact[0] and not hung, 'seekok': True})
    return {'k': k, 'dmax': d, 'cap': L // 2, 'events': events, 'mode': 'read', 'sizes': [d], 'lats': lat_choices}


def command_run(rng, kind, conc, local=False, limit=64 * 1024):
    """a whole snapshot / restore with rate_limit under the virtual clock: deliveries observed at the backend"""
    from replicat import utils
    from .. import membackend
    vt = vtime.VTime()
    real_time = utils.time
    real_lock = threading.Lock

    class T:
        perf_counter = staticmethod(vt.perf_counter)
        sleep = staticmethod(vt.sleep)
    events = []
    elock = threading.Lock()
    scale = L // limit         # ticks per byte at this limit: work in ticks of 2^-20 s, one byte = scale ticks
    with harness.scratch() as d:
        store = membackend.Store()
        if local:
            # the real LOCAL backend (its own copy loops decide the size of the pieces that pass through the limiter)
            from replicat.backends.local import Local
            (d / 'lrepo').mkdir()
            w = harness.World(store=store, concurrent=conc, backend_factory=lambda **kw: Local(str(d / 'lrepo')))
        else:
            w = harness.World(store=store, concurrent=conc)
        w.init('a', b'pw', harness.settings(encrypted=True, min_length=2048, max_length=8192))
        data = {('f%d.bin' % i): rng.randbytes(rng.randrange(20_000, 60_000)) for i in range(3)}
        harness.write_tree(d / 'src', data)
        if kind == 'restore':
            w.snapshot('a', [d / 'src'])

        class Meter:
            """wraps the stream the backend reads from / writes to: every chunk that passes is a delivery"""
        orig_up, orig_down = membackend.MemBackend.upload_stream, membackend.MemBackend.download_stream

        def upload_stream(self, name, stream, length, chunk_size=128_000):
            class M:
                def read(_, n=-1):
                    b = stream.read(n)
                    if b:
                        with elock:
                            events.append({'a': 'deliver', 's': 1, 'n': len(b) * scale, 't': int(round(vt.now * L))})
                    return b
            vt.enter()     # the thread is part of the virtual-time world for the duration of the transfer
            try:
                return orig_up(self, name, M(), length, chunk_size)
            finally:
                vt.leave()

        def download_stream(self, name, stream, chunk_size=128_000):
            class M:
                def write(_, b):
                    r = stream.write(b)
                    with elock:
                        events.append({'a': 'deliver', 's': 1, 'n': len(b) * scale, 't': int(round(vt.now * L))})
                    return r

                def truncate(_, n=None):
                    return stream.truncate(n)
            vt.enter()
            try:
                return orig_down(self, name, M(), chunk_size)
            finally:
                vt.leave()
        # the limiter's locks must be virtual-time aware: RateLimitedIO creates them with threading.Lock()
        orig_init = utils.RateLimitedIO.__init__

        def init(self, *a, **k):
            orig_init(self, *a, **k)
            self._read_lock, self._write_lock = vt.lock(), vt.lock()
        utils.RateLimitedIO.__init__ = init
        utils.time = T
        Target = membackend.MemBackend
        if local:
            from replicat.backends.local import Local as Target
            orig_up, orig_down = Target.upload_stream, Target.download_stream
        Target.upload_stream, Target.download_stream = upload_stream, download_stream
        try:
            box = {}

            def body():
                if kind == 'snapshot':
                    box['o'] = w.snapshot('a', [d / 'src'], rate_limit=limit)
                else:
                    (d / 'tgt').mkdir()
                    box['o'] = w.restore('a', d / 'tgt', rate_limit=limit)
            th = threading.Thread(target=lambda: (setattr(harness._NOCAP, 'on', True), body()), daemon=True)
            th.start()
            th.join(120)
            if th.is_alive() or 'o' not in box:
                raise tlc.MachineryError('rate-limited %s did not finish under the virtual clock' % kind)
            o = box['o']
            ok = o.ok
            if ok and kind == 'restore':
                got = {k_: v[0] for k_, v in harness.read_tree(d / 'tgt').items()}
                ok = sorted(got.values()) == sorted(data.values())
        finally:
            utils.time = real_time
            utils.RateLimitedIO.__init__ = orig_init
            Target.upload_stream, Target.download_stream = orig_up, orig_down
    events.sort(key=lambda e: e['t'])
    chunk = max(limit // (conc * 16), 1)
    events.append({'a': 'done', 'intact': bool(ok), 'seekok': True})
    return {'k': conc * 2 if kind == 'restore' else conc, 'dmax': chunk * scale, 'cap': L // 2, 'events': events, 'mode': kind, 'sizes': [chunk], 'lats': []}


def main(run):
    quick = run.tier == 'quick'
    rng = random.Random(run.seed + 20)
    base = open(os.path.join(tlc.SPEC_DIR, 'MC_RateLimit.cfg')).read()
    # theorem A: one stream, any I/O latency; theorem B: several streams, instantaneous I/O
    resA = tlc.check_design('RateLimit', 'a.cfg', cfg_text=base.replace('Streams = {1, 2}', 'Streams = {1}').replace('MaxOps = 6', 'MaxOps = 12' if quick else 'MaxOps = 16')
                            .replace('MaxTime = 40', 'MaxTime = 80').replace('Lats = {0, 5}', 'Lats = {0, 2, 5}'), timeout=3000)
    resB = tlc.check_design('RateLimit', 'b.cfg', cfg_text=base.replace('Lats = {0, 5}', 'Lats = {0}').replace('MaxOps = 6', 'MaxOps = 8' if quick else 'MaxOps = 10').replace('MaxTime = 40', 'MaxTime = 60'), timeout=3000)
    # the model of the code as it is also exhibits finding n: two streams whose own I/O takes as long as their share pass 2L
    tlc.check_design('RateLimit', 'n.cfg', cfg_text=base.replace('Sizes = {1, 4}', 'Sizes = {4}').replace('Lats = {0, 5}', 'Lats = {4}').replace('MaxOps = 6', 'MaxOps = 40').replace('MaxTime = 40', 'MaxTime = 120'),
                     expect_violation='RateRespected', timeout=3000)
    res = resB
    run.add(states=resA.distinct + resB.distinct, transitions=resA.generated + resB.generated, model_counterexample_of_finding_n=True)
    caught = []
    one = base.replace('Streams = {1, 2}', 'Streams = {1}')
    tlc.check_design('RateLimit', 'm1.cfg', cfg_text=one.replace('Mutant = "none"', 'Mutant = "halfExpected"').replace('MaxOps = 6', 'MaxOps = 14').replace('MaxTime = 40', 'MaxTime = 60'), expect_violation='RateRespected')
    tlc.check_design('RateLimit', 'm2.cfg', cfg_text=one.replace('Mutant = "none"', 'Mutant = "noDebt"').replace('MaxOps = 6', 'MaxOps = 9'), expect_violation='RateRespected')
    tlc.check_design('RateLimit', 'm3.cfg', cfg_text=base.replace('Mutant = "none"', 'Mutant = "sleepUnlocked"').replace('MaxOps = 6', 'MaxOps = 30').replace('MaxTime = 40', 'MaxTime = 80'),
                     expect_violation='RateRespected', extra=['-simulate', 'num=300000', '-depth', '150'], workers=1)
    caught += ['halfExpected', 'noDebt', 'sleepUnlocked']
    run.add(spec_mutants_caught=caught)
    traces = []
    quarter = L // 4
    size_sets = [[1, 7, 4096], [quarter], [quarter, quarter // 2, 1000], [65536, 65536 // 3], [100], [quarter - 1, quarter]]
    lat_sets = [[0.0], [0.0, 0.125, 0.25], [0.5, 0.0], [1 / 1024, 0.0], [0.03125]]
    for i in range(12 if quick else 300):
        k = [1, 2, 4, 1, 3][i % 5]
        sizes, lats = size_sets[i % len(size_sets)], lat_sets[(i // 2) % len(lat_sets)]
        mode = 'read' if i % 3 else 'write'
        traces.append(scenario(rng, k, 25 if quick else 80, sizes, lats, mode))
        run.case(('limiter', i, k, tuple(sizes), tuple(lats), mode))
    # many short streams in a row (every read comes back short)
    for k, m, d in ((1, 60, quarter), (2, 40, 65536)) if quick else ((1, 200, quarter), (2, 120, 65536), (1, 300, 4096), (3, 80, quarter // 2)):
        traces.append(small_streams(rng, k, m, d, [0]))
        run.case(('limiter', 'short-streams', k, m, d))
    # recorded finding n, exercised on every run: several streams whose underlying I/O is as slow as their share
    traces.append(scenario(rng, 4, 40, [quarter], [0.25], 'read'))
    run.case(('limiter', 'finding-n'))
    # the same through the real local backend, at a limit below twice the chunk size (a chunk is more than half a second's worth)
    for kind, conc in ([('snapshot', 2)] if quick else [('snapshot', 1), ('snapshot', 3), ('restore', 2)]):
        traces.append(command_run(rng, kind, conc, local=True, limit=8 * 1024))
        run.case(('command-local-backend', kind, conc))
    for i, (kind, conc) in enumerate([('snapshot', 2), ('restore', 2)] if quick else [('snapshot', 1), ('snapshot', 3), ('restore', 1), ('restore', 2), ('snapshot', 5)]):
        traces.append(command_run(rng, kind, conc))
        run.case(('command', kind, conc))

    def on_reject(t, idx, clause):
        e = t['events'][idx - 1]
        cls = 'several streams with slow underlying I/O' if (clause == 'P:RateRespected' and t['k'] >= 2 and any(x > 0 for x in t['lats'])) else 'any'
        fresh = run.violation(clause, cls, {'k': t['k'], 'mode': t['mode'], 'sizes': t['sizes'], 'lats': t['lats'], 'index': idx, 'event': e,
                                              'before': t['events'][max(0, idx - 6):idx - 1], 'burst_ticks': t['cap'] + (t['k'] + 1) * t['dmax']})
        return not fresh
    final, states = tlc.validate_loop('RateLimitTrace', 'Trace_Repo.cfg', traces, on_reject)
    run.add(traces_validated_against_impl=len(traces), deliveries=sum(len(t['events']) - 1 for t in traces))
    t = traces[0]
    run.sample({'k': t['k'], 'mode': t['mode'], 'sizes': t['sizes'], 'lats': t['lats'], 'deliveries': t['events'][:6]})
    run.coverage['rule'] = ('a case is one run of the real limiter under virtual time: K streams on one RateLimitedIO with a pattern of read/write sizes <= L/4 and '
                            'I/O latencies, or one whole snapshot / restore with rate_limit; every delivery is an event, all windows are judged by the leaky-bucket recursion')
    run.assumptions += ['sleeps are exact (the code credits oversleep, which would enlarge the burst by L x oversleep)', 'Burst = L/2 + (K+1)*dmax (DESIGN 6 C20)',
                        'the clock and the limiter locks are virtual; thread interleavings at equal virtual instants are whatever the OS produced']


def replay(run, path):
    main(run)
