"""Run a command under strace and turn the log into file-system events inside one directory."""
import os
import re
import subprocess
import sys

SYSCALLS = 'openat,open,creat,write,pwrite64,close,rename,renameat,renameat2,unlink,unlinkat,mkdir,mkdirat,rmdir,ftruncate,truncate'


def run(argv, log, env=None, timeout=300):
    cmd = ['strace', '-f', '-y', '-xx', '-s', '2000000', '-e', 'trace=' + SYSCALLS, '-o', log] + list(argv)
    p = subprocess.run(cmd, env=env, stdout=subprocess.PIPE, stderr=subprocess.PIPE, timeout=timeout)
    return p


def _unhex(s):
    return bytes(int(x, 16) for x in re.findall(r'\\x([0-9a-f]{2})', s))


def _str(s):
    """strace -xx string literal -> python str (paths)"""
    return _unhex(s).decode('utf-8', 'surrogateescape')


def parse(log, root):
    """-> list of events {'a': creat|write|close|rename|unlink|mkdir|rmdir, 'path', ...} for successful syscalls on paths under root"""
    root = os.path.realpath(root)
    pending = {}
    out = []
    for line in open(log, errors='surrogateescape'):
        m = re.match(r'^(\d+)\s+(.*)$', line.rstrip('\n'))
        if not m:
            continue
        pid, rest = m.group(1), m.group(2)
        if rest.endswith('<unfinished ...>'):
            pending[pid] = rest[:-len('<unfinished ...>')]
            continue
        m2 = re.match(r'<\.\.\. (\w+) resumed>(.*)$', rest)
        if m2:
            rest = pending.pop(pid, '') + m2.group(2)
        m3 = re.match(r'^(\w+)\((.*)\)\s+= (-?\d+)(<([^>]*)>)?', rest)
        if not m3:
            continue
        call, args, ret, _, retpath = m3.group(1), m3.group(2), int(m3.group(3)), m3.group(4), m3.group(5)
        if ret < 0:
            continue
        strs = [_str(x) for x in re.findall(r'"((?:\\x[0-9a-f]{2})*)"', args)]
        fdpaths = [_str(x) if x.startswith('\\x') else x for x in re.findall(r'\d+<([^>]*)>', args)]

        def under(p):
            return p is not None and (p == root or p.startswith(root + '/'))
        if call in ('openat', 'open', 'creat'):
            path = strs[0] if strs else None
            if not under(path):
                continue
            flags = args
            if 'O_DIRECTORY' in flags:
                continue
            if 'O_WRONLY' in flags or 'O_RDWR' in flags or call == 'creat':
                out.append({'a': 'creat', 'path': path, 'trunc': 'O_TRUNC' in flags or call == 'creat', 'excl': 'O_EXCL' in flags, 'fd': ret, 'pid': pid})
            else:
                out.append({'a': 'openr', 'path': path, 'fd': ret, 'pid': pid})
        elif call in ('write', 'pwrite64'):
            path = fdpaths[0] if fdpaths else None
            if under(path):
                data = _unhex(re.search(r'"((?:\\x[0-9a-f]{2})*)"', args).group(1)) if '"' in args else b''
                out.append({'a': 'write', 'path': path, 'data': data[:ret], 'n': ret, 'pid': pid})
        elif call == 'close':
            path = fdpaths[0] if fdpaths else None
            if under(path):
                out.append({'a': 'close', 'path': path, 'pid': pid})
        elif call in ('rename', 'renameat', 'renameat2'):
            if len(strs) >= 2 and (under(strs[0]) or under(strs[1])):
                out.append({'a': 'rename', 'path': strs[0], 'to': strs[1], 'pid': pid})
        elif call in ('unlink', 'unlinkat'):
            if strs and under(strs[0]):
                out.append({'a': 'rmdir' if 'AT_REMOVEDIR' in args else 'unlink', 'path': strs[0], 'pid': pid})
        elif call in ('mkdir', 'mkdirat'):
            if strs and under(strs[0]):
                out.append({'a': 'mkdir', 'path': strs[0], 'pid': pid})
        elif call == 'rmdir':
            if strs and under(strs[0]):
                out.append({'a': 'rmdir', 'path': strs[0], 'pid': pid})
        elif call in ('ftruncate', 'truncate'):
            path = fdpaths[0] if fdpaths else (strs[0] if strs else None)
            if under(path):
                out.append({'a': 'truncate', 'path': path, 'pid': pid})
    return out


def apply(files, dirs, e, partial=None):
    """mutate the simulated directory (files: path -> bytearray, dirs: set); partial: number of bytes of a write that land"""
    a = e['a']
    if a == 'creat':
        if e['trunc'] or e['path'] not in files:
            files[e['path']] = bytearray()
    elif a == 'write':
        data = e['data'] if partial is None else e['data'][:partial]
        files.setdefault(e['path'], bytearray()).extend(data)
    elif a == 'rename':
        if e['path'] in files:
            files[e['to']] = files.pop(e['path'])
    elif a == 'unlink':
        files.pop(e['path'], None)
    elif a == 'mkdir':
        dirs.add(e['path'])
    elif a == 'rmdir':
        dirs.discard(e['path'])
    elif a == 'truncate':
        pass


def materialise(files, dirs, src_root, dst_root):
    """write the simulated directory under dst_root (paths translated from src_root)"""
    for d in sorted(dirs):
        os.makedirs(dst_root + d[len(src_root):], exist_ok=True)
    for p, data in files.items():
        q = dst_root + p[len(src_root):]
        os.makedirs(os.path.dirname(q), exist_ok=True)
        with open(q, 'wb') as f:
            f.write(bytes(data))
