"""Evidence files, known findings, verdict bookkeeping for one check run."""
import hashlib
import json
import os
import subprocess
import sys
import time

ROOT = os.path.dirname(os.path.dirname(os.path.abspath(__file__)))
EVIDENCE_DIR = os.path.join(ROOT, 'evidence')
REPLAY_DIR = os.path.join(ROOT, 'replays')
FINDINGS = os.path.join(ROOT, 'known_findings.json')
SCHEMA = '/root/.vp/EVIDENCE.schema.json'


def load_findings(pid):
    try:
        data = json.load(open(FINDINGS))
    except FileNotFoundError:
        return []
    return [f for f in data.get('findings', []) if f.get('property') == pid and f.get('status') == 'known']


class Run:
    """Collects what a check did. Violations are matched against known findings by
    (clause, class): a finding lists `clause` and `class` strings that must be equal to the
    violation's; anything else is a fresh VIOLATION."""

    def __init__(self, pid, tier, seed, level):
        self.pid, self.tier, self.seed, self.level = pid, tier, seed, level
        self.t0 = time.time()
        self.coverage = {'samples': []}
        self.assumptions = []
        self.violations = []      # fresh
        self.known_hits = {}      # finding id -> count
        self.drift = {}           # clause -> count
        self.findings = load_findings(pid)
        if os.path.isdir(REPLAY_DIR):
            for f in os.listdir(REPLAY_DIR):
                if f.startswith(pid + '_'):
                    os.remove(os.path.join(REPLAY_DIR, f))
        self._distinct = set()
        self.evaluations = 0

    # ---- bookkeeping
    def case(self, key, nontrivial=True):
        """count one evaluated case; key identifies it for the distinct count"""
        self.evaluations += 1
        if nontrivial:
            self._distinct.add(hashlib.sha1(repr(key).encode()).digest()[:8])

    def sample(self, obj, limit=6):
        if len(self.coverage['samples']) < limit:
            self.coverage['samples'].append(obj)

    def add(self, **kw):
        for k, v in kw.items():
            if isinstance(v, int) and not isinstance(v, bool) and isinstance(self.coverage.get(k), int):
                self.coverage[k] += v
            else:
                self.coverage[k] = v

    def note_drift(self, clause, n=1):
        self.drift[clause] = self.drift.get(clause, 0) + n

    def violation(self, clause, cls, detail, replay=None):
        """Report a property-clause failure. `cls` is the input-class string used for matching
        against known findings."""
        for f in self.findings:
            if f.get('clause') == clause and f.get('class') == cls:
                self.known_hits[f['id']] = self.known_hits.get(f['id'], 0) + 1
                return False
        path = None
        if sum(1 for v in self.violations if v[0] == clause) < 6 and len(self.violations) < 60:
            os.makedirs(REPLAY_DIR, exist_ok=True)
            path = os.path.join(REPLAY_DIR, '%s_%s_%d.json' % (self.pid, clause.replace('/', '_')[:40], len(self.violations)))
            with open(path, 'w') as fh:
                json.dump({'property': self.pid, 'clause': clause, 'class': cls, 'detail': detail,
                           'seed': self.seed, 'tier': self.tier, 'replay': replay}, fh, indent=1, default=repr)
        self.violations.append((clause, cls, path))
        if path:
            print('VIOLATION property=%s replay=%s' % (self.pid, path))
            print('  clause=%s class=%s detail=%s' % (clause, cls, json.dumps(detail, default=repr)[:600]))
        sys.stdout.flush()
        return True

    # ---- finish
    def finish(self):
        cov = self.coverage
        cov.setdefault('evaluations', self.evaluations)
        cov.setdefault('distinct_nontrivial', len(self._distinct))
        cov.setdefault('rule', '')
        if self.drift:
            cov['drift'] = self.drift
        if self.known_hits:
            cov['known_finding_hits'] = self.known_hits
        ev = {
            'property_id': self.pid, 'tier': self.tier, 'seed': self.seed, 'level': self.level,
            'coverage': cov, 'assumptions': self.assumptions,
            'wall_s': round(time.time() - self.t0, 2), 'violations': len(self.violations),
        }
        os.makedirs(EVIDENCE_DIR, exist_ok=True)
        path = os.path.join(EVIDENCE_DIR, self.pid + '.json')
        with open(path, 'w') as fh:
            json.dump(ev, fh, indent=1, default=repr)
        _validate(path)
        for f in self.findings:
            if f['id'] in self.known_hits:
                print('KNOWN-FINDING: property=%s %s [%s; %d case(s) this run]' % (self.pid, f['what'], f['id'], self.known_hits[f['id']]))
        for c, n in sorted(self.drift.items()):
            print('DRIFT property=%s clause=%s count=%d (conformance only, not a violation)' % (self.pid, c, n))
        print('%s %s: evaluations=%d distinct=%d violations=%d wall=%.1fs' % (
            self.pid, self.tier, cov['evaluations'], cov['distinct_nontrivial'], len(self.violations), ev['wall_s']))
        return 1 if self.violations else 0


def _validate(path):
    code = ("import json,sys,jsonschema; jsonschema.validate(json.load(open(sys.argv[1])), json.load(open(sys.argv[2])))")
    for py in ('python3-vt', '/opt/veriftools/pyvenv/bin/python'):
        try:
            p = subprocess.run([py, '-c', code, path, SCHEMA], capture_output=True, text=True, timeout=60)
        except (FileNotFoundError, subprocess.TimeoutExpired):
            continue
        if p.returncode != 0:
            raise RuntimeError('evidence file does not validate: ' + p.stderr[-800:])
        return
