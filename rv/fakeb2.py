"""An in-process Backblaze B2 service behind httpx.MockTransport (the subset replicat uses):
b2_authorize_account, b2_list_buckets, b2_get_upload_url, upload, download / HEAD by name, b2_list_file_names
(nextFileName paging), b2_hide_file (already_hidden / no_such_file), token expiry -> 401."""
import base64
import json
from urllib.parse import unquote

import httpx


class Runaway(BaseException):
    """one adapter call has sent an absurd number of requests: the harness aborts it"""


class FakeB2:
    API = 'https://api.fake-b2.test'
    DL = 'https://dl.fake-b2.test'
    UP = 'https://up.fake-b2.test'

    def __init__(self, bucket='bkt', bucket_id='b-123', key_id='kid', app_key='appkey', page_size=1000, restricted=False, faults=None):
        self.bucket, self.bucket_id, self.key_id, self.app_key = bucket, bucket_id, key_id, app_key
        self.page_size, self.restricted = page_size, restricted
        self.versions = {}        # name -> list of ('upload', bytes) | ('hide',)
        self.tokens = set()
        self.upload_tokens = set()
        self.ntok = 0
        self.requests = []
        self.faults = faults
        self.calls = 0
        self.auth_calls = 0

    # ---- the visible object map
    def visible(self):
        out = {}
        for n, vs in self.versions.items():
            if vs and vs[-1][0] == 'upload':
                out[n] = vs[-1][1]
        return out

    def expire_tokens(self):
        self.tokens.clear()
        self.upload_tokens.clear()

    def transport(self):
        return httpx.MockTransport(self.handle)

    async def handle(self, request):
        act = self.plan(request) if getattr(self, 'plan', None) else None
        if act is not None and act[0] != 'cutreal':
            from .fakes3 import apply_fault
            return await apply_fault(self, request, act)
        body = await request.aread()
        self.calls += 1
        self.op_calls = getattr(self, 'op_calls', 0) + 1
        if self.op_calls > getattr(self, 'op_limit', 64):
            raise Runaway()
        rec = {'method': request.method, 'url': str(request.url), 'target': request.url.raw_path, 'host': request.url.host,
               'headers': {k.lower(): v for k, v in request.headers.items()}, 'body': body, 'n': self.calls}
        self.requests.append(rec)
        if self.faults is not None:
            r = self.faults(rec)
            if isinstance(r, Exception):
                raise r
            if r is not None:
                return r
        if act is not None and act[0] == 'cutreal':
            from .fakes3 import cut_real
            return await cut_real(self, request, self._respond(request, rec, body), act[1])
        return self._respond(request, rec, body)

    def _err(self, status, code):
        return httpx.Response(status, json={'status': status, 'code': code, 'message': code})

    def _respond(self, request, rec, body):
        path = request.url.raw_path.partition(b'?')[0].decode('ascii', 'replace')
        h = rec['headers']
        host = request.url.host
        if path.endswith('/b2_authorize_account'):
            self.auth_calls += 1
            exp = 'Basic ' + base64.b64encode(('%s:%s' % (self.key_id, self.app_key)).encode()).decode()
            if h.get('authorization') != exp:
                return self._err(403, 'bad_auth_token')      # 403: replicat gives up at once
            self.ntok += 1
            tok = 'tok-%d' % self.ntok
            self.tokens.add(tok)
            allowed = {'bucketId': self.bucket_id if self.restricted else None, 'bucketName': self.bucket if self.restricted else None, 'capabilities': ['all']}
            return httpx.Response(200, json={'accountId': 'acc', 'apiUrl': self.API, 'downloadUrl': self.DL, 'authorizationToken': tok, 'allowed': allowed})
        if host == 'up.fake-b2.test':
            if h.get('authorization') not in self.upload_tokens:
                return self._err(401, 'expired_auth_token')
            name = unquote(h.get('x-bz-file-name', ''))
            if 'content-length' in h and int(h['content-length']) != len(body):
                # what the real HTTP stack does: the CLIENT side (h11) refuses to finish a message whose body does not have the declared length
                raise httpx.LocalProtocolError('Too %s data for declared Content-Length' % ('little' if len(body) < int(h['content-length']) else 'much'), request=request)
            self.ntok += 1
            fid = 'f-%d' % self.ntok
            self.versions.setdefault(name, []).append(('upload', body, fid))
            return httpx.Response(200, json={'fileName': name, 'fileId': fid, 'contentLength': len(body)})
        if host == 'dl.fake-b2.test':
            if h.get('authorization') not in self.tokens:
                return self._err(401, 'expired_auth_token')
            pre = '/file/%s/' % self.bucket
            if not path.startswith(pre):
                return self._err(404, 'not_found')
            # the service decodes the path of the URL it received; a raw '?' or '#' never gets here as part of the path
            name = unquote(path[len(pre):])
            vis = self.visible()
            if name not in vis:
                return self._err(404, 'not_found')
            if request.method == 'HEAD':
                return httpx.Response(200, headers={'content-length': str(len(vis[name]))})
            return httpx.Response(200, content=vis[name])
        # API calls
        if h.get('authorization') not in self.tokens:
            return self._err(401, 'expired_auth_token')
        try:
            args = json.loads(body or b'{}')
        except ValueError:
            return self._err(400, 'bad_json')
        if path.endswith('/b2_list_buckets'):
            return httpx.Response(200, json={'buckets': [{'bucketId': 'other-id', 'bucketName': 'other'}, {'bucketId': self.bucket_id, 'bucketName': self.bucket}]})
        if path.endswith('/b2_get_upload_url'):
            self.ntok += 1
            ut = 'up-%d' % self.ntok
            self.upload_tokens.add(ut)
            return httpx.Response(200, json={'bucketId': self.bucket_id, 'uploadUrl': self.UP + '/b2api/v2/b2_upload_file/%s/%d' % (self.bucket_id, self.ntok), 'authorizationToken': ut})
        if path.endswith('/b2_list_file_names'):
            prefix = args.get('prefix') or ''
            start = args.get('startFileName') or ''
            count = min(int(args.get('maxFileCount', 100)), self.page_size)
            names = sorted(n for n in self.visible() if n.startswith(prefix) and n >= start)
            page = names[:count]
            nxt = names[count] if len(names) > count else None
            return httpx.Response(200, json={'files': [{'fileName': n, 'fileId': self._fid(n, len(self.versions[n]) - 1), 'action': 'upload', 'contentLength': len(self.visible()[n])}
                                                       for n in page], 'nextFileName': nxt})
        if path.endswith('/b2_hide_file'):
            name = args.get('fileName')
            vs = self.versions.get(name)
            if not vs:
                return self._err(400, 'no_such_file')
            if vs[-1][0] == 'hide':
                return self._err(400, 'already_hidden')
            self.ntok += 1
            vs.append(('hide', None, 'f-%d' % self.ntok))
            return httpx.Response(200, json={'fileName': name, 'action': 'hide'})
        if path.endswith('/b2_delete_file_version'):
            # removes ONE version; whatever lies underneath (an older upload, a hide marker) becomes the newest again
            name, fid = args.get('fileName'), args.get('fileId')
            vs = self.versions.get(name) or []
            for i in range(len(vs)):
                if self._fid(name, i) == fid:
                    del vs[i]
                    return httpx.Response(200, json={'fileName': name, 'fileId': fid})
            return self._err(400, 'file_not_present')
        return self._err(404, 'not_found')

    def _fid(self, name, i):
        v = self.versions[name][i]
        return v[2] if len(v) > 2 else 'legacy-%s-%d' % (name, i)


def client(fake, **kw):
    from replicat.backends import b2
    c = b2.B2(kw.pop('bucket', fake.bucket), key_id=kw.pop('key_id', fake.key_id), application_key=kw.pop('application_key', fake.app_key))
    c._client = httpx.AsyncClient(transport=fake.transport(), timeout=None, event_hooks={'response': [b2._raise_for_status_hook]})
    return c
