"""Independent reader / writer of the replicat repository format.

Written from the README's scheme and the format statement of property C14; imports nothing
from replicat.  Only hashlib, json, base64, os and cryptography's AEAD / Scrypt primitives.
"""
import base64
import hashlib
import json
import os

from cryptography.exceptions import InvalidTag
from cryptography.hazmat.primitives.ciphers.aead import AESGCM, ChaCha20Poly1305
from cryptography.hazmat.primitives.kdf.scrypt import Scrypt


class FormatError(Exception):
    pass


# ---------------------------------------------------------------- JSON with tagged byte strings
def _hook(o):
    if len(o) == 1 and '!b' in o:
        return base64.standard_b64decode(o['!b'])
    return o


def loads(data):
    return json.loads(data, object_hook=_hook)


def _default(o):
    if isinstance(o, (bytes, bytearray, memoryview)):
        return {'!b': base64.standard_b64encode(bytes(o)).decode('ascii')}
    raise TypeError(type(o))


def dumps(obj):
    return json.dumps(obj, separators=(',', ':'), default=_default).encode('ascii')


# ---------------------------------------------------------------- primitives from config
def make_hash(cfg):
    name = cfg['name']
    if name == 'blake2b':
        n = cfg.get('length', 64)
        return lambda d: hashlib.blake2b(d, digest_size=n).digest()
    if name == 'sha2':
        f = getattr(hashlib, 'sha%d' % cfg.get('bits', 512))
        return lambda d: f(d).digest()
    if name == 'sha3':
        f = getattr(hashlib, 'sha3_%d' % cfg.get('bits', 512))
        return lambda d: f(d).digest()
    raise FormatError('unknown hash %r' % name)


class Cipher:
    def __init__(self, cfg):
        self.name = cfg['name']
        if self.name == 'aes_gcm':
            self.key_bytes = cfg.get('key_bits', 256) // 8
            self.nonce_bytes = cfg.get('nonce_bits', 96) // 8
            self.cls = AESGCM
        elif self.name == 'chacha20_poly1305':
            self.key_bytes, self.nonce_bytes, self.cls = 32, 12, ChaCha20Poly1305
        else:
            raise FormatError('unknown cipher %r' % self.name)

    def split(self, blob):
        return blob[:self.nonce_bytes], blob[self.nonce_bytes:]

    def decrypt(self, blob, key):
        nonce, ct = self.split(blob)
        try:
            return self.cls(key).decrypt(nonce, ct, None)
        except (InvalidTag, ValueError) as e:
            raise FormatError('authentication failed') from e

    def encrypt(self, data, key, nonce=None):
        nonce = os.urandom(self.nonce_bytes) if nonce is None else nonce
        return nonce + self.cls(key).encrypt(nonce, data, None)


def user_key(key_obj, password):
    kdf = key_obj['kdf']
    if kdf['name'] == 'blake2b':
        # README: BLAKE2b as "KDF": keyed BLAKE2b of the (empty) context, salted with the stored parameters, keyed with the key material
        try:
            return hashlib.blake2b(b'', salt=key_obj['kdf_params'], digest_size=kdf['length'], key=password).digest()
        except ValueError as e:
            raise FormatError('blake2b kdf: %s' % e) from e
    if kdf['name'] != 'scrypt':
        raise FormatError('unknown user kdf %r' % kdf['name'])
    return Scrypt(salt=key_obj['kdf_params'], length=kdf['length'], n=kdf.get('n', 1 << 20),
                  r=kdf.get('r', 8), p=kdf.get('p', 1)).derive(password)


class Keys:
    """Everything a key holder knows: user key + the private section"""

    def __init__(self, config, key_obj=None, password=None):
        self.config = config
        self.hash = make_hash(config['hashing'])
        enc = config.get('encryption')
        self.encrypted = enc is not None
        if not self.encrypted:
            self.cipher = None
            return
        self.cipher = Cipher(enc['cipher'])
        if isinstance(key_obj, (bytes, str)):
            key_obj = loads(key_obj)
        self.key_obj = key_obj
        self.userkey = user_key(key_obj, password)
        priv = key_obj['private']
        if isinstance(priv, (bytes, bytearray)):
            priv = loads(self.cipher.decrypt(priv, self.userkey))
        self.private = priv
        if priv['mac']['name'] != 'blake2b' or priv['shared_kdf']['name'] != 'blake2b':
            raise FormatError('unknown mac/shared kdf')
        self.mac_len = priv['mac'].get('length', 64)
        self.skdf_len = priv['shared_kdf']['length']

    def mac(self, msg):
        return hashlib.blake2b(msg, digest_size=self.mac_len, key=self.private['mac_params']).digest()

    def shared_subkey(self, ctx):
        return hashlib.blake2b(ctx, salt=self.private['shared_kdf_params'], digest_size=self.skdf_len,
                               key=self.private['shared_key']).digest()

    @property
    def family_id(self):
        """identity of the key family = the MAC key (or 'plain')"""
        return hashlib.sha1(self.private['mac_params']).hexdigest()[:12] if self.encrypted else 'plain'

    # ---- names
    def chunk_name_tag(self, digest):
        if not self.encrypted:
            return digest.hex(), digest.hex()
        m = self.mac(digest)
        return m.hex(), self.mac(m).hex()

    def chunk_location(self, digest):
        name, tag = self.chunk_name_tag(digest)
        return 'data/%s/%s/%s-%s' % (tag[:2], tag[2:4], tag[4:], name)

    def snapshot_location(self, blob):
        d = self.hash(blob)
        tag = self.mac(d).hex() if self.encrypted else d.hex()
        return 'snapshots/%s/%s-%s' % (tag[:2], tag[2:], d.hex())

    # ---- objects
    def encode_chunk(self, plaintext):
        d = self.hash(plaintext)
        blob = self.cipher.encrypt(plaintext, self.shared_subkey(d)) if self.encrypted else plaintext
        return self.chunk_location(d), blob

    def decode_chunk(self, blob, digest):
        """plaintext of a chunk object claimed to have this digest; verifies AEAD + hash"""
        pt = self.cipher.decrypt(blob, self.shared_subkey(digest)) if self.encrypted else blob
        if self.hash(pt) != digest:
            raise FormatError('chunk hash mismatch')
        return pt

    def encode_snapshot(self, chunks, data):
        if self.encrypted:
            priv = self.cipher.encrypt(dumps(data), self.userkey)
            body = {'chunks': self.cipher.encrypt(dumps(chunks), self.shared_subkey(self.hash(priv))), 'data': priv}
        else:
            body = {'chunks': chunks, 'data': data}
        blob = dumps(body)
        return self.snapshot_location(blob), blob

    def decode_snapshot(self, blob):
        """-> (chunks or None, data or None). chunks None: not of this family / damaged."""
        body = loads(blob)
        if not self.encrypted:
            return body['chunks'], body['data']
        try:
            chunks = loads(self.cipher.decrypt(body['chunks'], self.shared_subkey(self.hash(body['data']))))
        except FormatError:
            return None, None
        try:
            data = loads(self.cipher.decrypt(body['data'], self.userkey))
        except FormatError:
            data = None
        return chunks, data


def split_location(loc):
    """lenient: (area, tag, name) from a storage path; fan-out agnostic"""
    if loc.startswith('data/'):
        area, rest = 'chunk', loc[5:]
    elif loc.startswith('snapshots/'):
        area, rest = 'snap', loc[10:]
    else:
        return 'other', None, loc
    flat = rest.replace('/', '')
    tag, _, name = flat.rpartition('-')
    return area, tag, name


def is_hex(s):
    try:
        bytes.fromhex(s)
        return len(s) > 0
    except ValueError:
        return False


# ---------------------------------------------------------------- whole-repository view
class View:
    """Projection of a raw object map to what the given key holders can establish.

    holders: {user: Keys}.  Families are discovered from the MAC keys of the holders."""

    def __init__(self, objs, holders):
        self.objs = objs
        self.holders = holders
        self.fams = {}
        for u, k in holders.items():
            self.fams.setdefault(k.family_id, []).append(u)
        self.problems = []
        self.snaps = {}     # location -> dict(fam, owner, chunks, data, name)
        self.chunks = {}    # location -> dict(fam, name, tag)
        self.others = []
        for loc, blob in objs.items():
            area, tag, name = split_location(loc)
            if area == 'other':
                self.others.append(loc)
                continue
            if not (is_hex(tag or '') and is_hex(name or '')):
                self.problems.append(('bad-name', loc))
                continue
            fam = self._family_of(area, tag, name)
            if area == 'chunk':
                self.chunks[loc] = {'fam': fam, 'name': name, 'tag': tag}
            else:
                self.snaps[loc] = self._read_snapshot(loc, blob, fam, name)

    def _any(self, fam):
        return self.holders[self.fams[fam][0]]

    def _family_of(self, area, tag, name):
        for fam in self.fams:
            k = self._any(fam)
            if not k.encrypted:
                if tag == name:
                    return fam
                continue
            if k.mac(bytes.fromhex(name)).hex() == tag:
                return fam
        return None

    def _read_snapshot(self, loc, blob, fam, name):
        rec = {'fam': fam, 'name': name, 'owner': None, 'chunks': None, 'data': None, 'ok': False}
        if fam is None:
            return rec
        k = self._any(fam)
        if k.hash(blob).hex() != name:
            self.problems.append(('snapshot-name-not-hash', loc))
            return rec
        for u in self.fams[fam]:
            try:
                chunks, data = self.holders[u].decode_snapshot(blob)
            except Exception as e:     # malformed JSON etc.
                self.problems.append(('snapshot-undecodable', loc, repr(e)))
                return rec
            if chunks is not None:
                rec['chunks'] = chunks
            if data is not None:
                rec['data'] = data
                rec['owner'] = u
        rec['ok'] = rec['chunks'] is not None
        if not rec['ok']:
            self.problems.append(('snapshot-table-undecodable', loc))
        return rec

    def chunk_plain(self, fam, digest):
        """plaintext of the chunk with this digest in family fam, or raises FormatError/KeyError"""
        k = self._any(fam)
        loc = k.chunk_location(digest)
        return k.decode_chunk(self.objs[loc], digest)

    def check_tiling(self, data, chunks, fam, verify_content=True):
        """C14: ranges of each file, ordered by counter, lie within their chunk, and reassembly has the
        recorded size/digest. Returns list of problems."""
        probs = []
        k = self._any(fam)
        cache = {}
        for f in data['files']:
            refs = sorted(f['chunks'], key=lambda r: r['counter'])
            buf = []
            for r in refs:
                lo, hi = r['range']
                if not (0 <= r['index'] < len(chunks)):
                    probs.append(('index-out-of-table', f['path']))
                    break
                d = chunks[r['index']]
                if verify_content:
                    if d not in cache:
                        try:
                            cache[d] = self.chunk_plain(fam, d)
                        except (KeyError, FormatError) as e:
                            probs.append(('chunk-unreadable', f['path'], d.hex()[:12], repr(e)))
                            break
                    pt = cache[d]
                    if not (0 <= lo <= hi <= len(pt)):
                        probs.append(('range-outside-chunk', f['path'], [lo, hi], len(pt)))
                        break
                    buf.append(pt[lo:hi])
                elif not (0 <= lo <= hi):
                    probs.append(('range-invalid', f['path']))
            else:
                if verify_content:
                    whole = b''.join(buf)
                    md = f.get('metadata') or {}
                    if 'st_size' in md and md['st_size'] != len(whole):
                        probs.append(('size-mismatch', f['path'], md['st_size'], len(whole)))
                    if f.get('digest') is not None and k.hash(whole) != f['digest']:
                        probs.append(('file-digest-mismatch', f['path']))
        return probs

    def file_bytes(self, fam, chunks, f):
        refs = sorted(f['chunks'], key=lambda r: r['counter'])
        return b''.join(self.chunk_plain(fam, chunks[r['index']])[r['range'][0]:r['range'][1]] for r in refs)


# ---------------------------------------------------------------- independent writer
def write_repository(keys, stream_files, cuts, *, timestamp, legacy_metadata=False, closed_intervals=True, note=None, align=4):
    """Build the objects of a repository holding one snapshot, following the documented scheme.

    stream_files: [(path, bytes, metadata dict)] in stream order; the stream is the files padded to `align`;
    cuts: interior cut positions of the stream (any tiling is a valid repository).
    Returns {location: bytes}."""
    layout, pos, stream = [], 0, bytearray()
    for path, data, md in stream_files:
        layout.append((path, pos, pos + len(data), data, md))
        stream += data
        pad = (-len(data)) % align
        stream += bytes(pad)
        pos += len(data) + pad
    total = layout[-1][2] if layout else 0
    stream = bytes(stream[:total])
    bounds = sorted(set([0, total] + [c for c in cuts if 0 < c < total])) if total else []
    objs, table, entries = {}, [], {}
    for path, s, e, data, md in layout:
        entries[path] = {'path': path, 'chunks': [], 'digest': keys.hash(data), 'metadata': md}
    for j in range(len(bounds) - 1):
        lo, hi = bounds[j], bounds[j + 1]
        plain = stream[lo:hi]
        d = keys.hash(plain)
        if d not in table:
            table.append(d)
        loc, blob = keys.encode_chunk(plain)
        objs[loc] = blob
        for path, s, e, data, md in layout:
            touch = (s <= hi and not e < lo) if closed_intervals else (s < hi and e > lo)
            if touch:
                entries[path]['chunks'].append({'range': [max(s - lo, 0), min(e, hi) - lo], 'index': table.index(d), 'counter': j + 1})
    files = []
    for path, s, e, data, md in layout:
        ent = entries[path]
        if legacy_metadata:
            m = dict(md)
            for k in ('st_atime', 'st_mtime', 'st_ctime'):
                m[k] = m.pop(k + '_ns') / 1e9
            ent['metadata'] = m
        files.append(ent)
    data = {'utc_timestamp': timestamp, 'files': files}
    if note is not None:
        data['note'] = note
    loc, blob = keys.encode_snapshot(table, data)
    objs[loc] = blob
    return objs
