"""Rendezvous gate for file-system calls under one directory (used for the snapshot cache, C18).

A check-then-act race between two writers of the same directory needs both of them inside a window of a few
microseconds; free-running executions practically never produce it. The gate changes nothing but timing: a thread that is about
to call mkdir / open on a path below `root` waits (at most `wait` seconds) for another thread that is about to make the same kind
of call in the same directory, and both are released together. Every schedule produced this way is a schedule the operating system
could have produced, so no outcome seen under the gate is an artefact.
"""
import io
import os
import threading


class Rendezvous:
    def __init__(self, root, wait=0.05):
        self.root = os.path.realpath(str(root)) + os.sep
        self.wait = wait
        self.cv = threading.Condition()
        self.waiting = {}       # key -> number of threads parked
        self.gen = {}           # key -> generation (bumped on release)
        self.pairs = 0
        self.calls = 0

    def _meet(self, key):
        with self.cv:
            self.calls += 1
            if self.waiting.get(key):
                self.waiting[key] = 0
                self.gen[key] = self.gen.get(key, 0) + 1
                self.pairs += 1
                self.cv.notify_all()
                return
            self.waiting[key] = 1
            g = self.gen.get(key, 0)
            if not self.cv.wait_for(lambda: self.gen.get(key, 0) != g, timeout=self.wait):
                self.waiting[key] = 0

    def _under(self, path):
        try:
            p = os.path.abspath(os.fspath(path))
        except TypeError:
            return None
        if isinstance(p, bytes):
            p = os.fsdecode(p)
        return p if (p + os.sep).startswith(self.root) else None

    def __enter__(self):
        self._mkdir, self._open = os.mkdir, io.open

        def mkdir(path, *a, **kw):
            p = self._under(path)
            if p:
                self._meet(('mkdir', p))
            return self._mkdir(path, *a, **kw)

        def open_(file, *a, **kw):
            p = self._under(file) if not isinstance(file, int) else None
            if p:
                self._meet(('open', os.path.dirname(p)))
            return self._open(file, *a, **kw)

        os.mkdir, io.open = mkdir, open_
        return self

    def __exit__(self, *exc):
        os.mkdir, io.open = self._mkdir, self._open
        return False
