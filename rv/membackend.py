"""Instrumented in-memory backends (plain and coroutine flavours).

* every call is recorded (`calls`), every mutation appended to `mutlog` (put/del with payload)
  -> every prefix of `mutlog` is a crash state that can be rebuilt with `state_at(k)`;
* `inflight`/`max_inflight` count outstanding *transfers* (exists, upload, upload_stream, download,
  download_stream, delete) - list_files, clean and close are not transfers (property C09);
* `gate(op, name)` is called (awaited in the coroutine flavour) before the operation takes
  effect: schedulers park calls there, fault scripts raise from it, crash scripts kill the "process".
"""
import asyncio
import threading

TRANSFERS = ('exists', 'upload', 'upload_stream', 'download', 'download_stream', 'delete')


class Killed(BaseException):
    """The simulated process no longer runs; nothing it does afterwards reaches the backend."""


class Store:
    """Shared object map + logs; several backend objects (= processes) may share one Store."""

    def __init__(self, initial=None):
        self.objs = dict(initial or {})
        self.lock = threading.RLock()
        self.mutlog = []       # ('put'|'del', name, data|None, client_id)
        self.initial = dict(self.objs)
        self.calls = []        # (client_id, op, name, result-summary)
        self.events = []       # ('exists'|'put'|'del', name, data|result, client_id) in the order the store applied them

    def state_at(self, k):
        objs = dict(self.initial)
        for kind, name, data, _ in self.mutlog[:k]:
            if kind == 'put':
                objs[name] = data
            else:
                objs.pop(name, None)
        return objs


class _Base:
    def __init__(self, store=None, *, client_id='c', gate=None, list_order=None):
        self.store = store if store is not None else Store()
        self.client_id = client_id
        self.gate = gate
        self.list_order = list_order
        self.inflight = 0
        self.max_inflight = 0
        self.dead = False
        self._ilock = threading.Lock()
        self.closed = False

    # ---- helpers
    def _enter(self, op):
        if self.dead:
            raise Killed()
        if op in TRANSFERS:
            with self._ilock:
                self.inflight += 1
                if self.inflight > self.max_inflight:
                    self.max_inflight = self.inflight

    def _leave(self, op):
        if op in TRANSFERS:
            with self._ilock:
                self.inflight -= 1

    def _record(self, op, name, res=None):
        self.store.calls.append((self.client_id, op, name, res))

    def _put(self, name, data):
        with self.store.lock:
            if self.dead or getattr(self, 'kill_on_first_mutation', False):
                self.dead = True
                raise Killed()
            self.store.objs[name] = bytes(data)
            self.store.mutlog.append(('put', name, bytes(data), self.client_id))
            self.store.events.append(('put', name, bytes(data), self.client_id))
        cb = getattr(self, 'after_mutation', None)
        if cb is not None:
            cb(self)

    def _del(self, name):
        with self.store.lock:
            if self.dead or getattr(self, 'kill_on_first_mutation', False):
                self.dead = True
                raise Killed()
            existed = name in self.store.objs
            self.store.objs.pop(name, None)
            self.store.mutlog.append(('del', name, None, self.client_id))
            self.store.events.append(('del', name, existed, self.client_id))
        cb = getattr(self, 'after_mutation', None)
        if cb is not None:
            cb(self)
        return existed

    def _list(self, prefix):
        with self.store.lock:
            names = [n for n in self.store.objs if n.startswith(prefix)]
        if self.list_order is not None:
            names = self.list_order(names)
        return names


class MemBackend(_Base):
    """plain (blocking) methods: replicat runs them in executor / loader threads"""

    def _g(self, op, name):
        if self.gate is not None:
            self.gate(self, op, name)
        if self.dead:
            raise Killed()

    def exists(self, name):
        self._enter('exists')
        try:
            self._g('exists', name)
            with self.store.lock:
                r = name in self.store.objs
                self.store.events.append(('exists', name, r, self.client_id))
            self._record('exists', name, r)
            return r
        finally:
            self._leave('exists')

    def upload(self, name, data):
        self._enter('upload')
        try:
            self._g('upload', name)
            self._put(name, data)
            self._record('upload', name, len(data))
        finally:
            self._leave('upload')

    def upload_stream(self, name, stream, length, chunk_size=128_000):
        self._enter('upload_stream')
        try:
            self._g('upload_stream', name)
            parts = []
            while True:
                b = stream.read(chunk_size)
                if not b:
                    break
                parts.append(bytes(b))
            data = b''.join(parts)
            self._put(name, data)
            self._record('upload_stream', name, (len(data), length, chunk_size))
        finally:
            self._leave('upload_stream')

    def download(self, name):
        self._enter('download')
        try:
            self._g('download', name)
            with self.store.lock:
                if name not in self.store.objs:
                    self._record('download', name, None)
                    raise FileNotFoundError(name)
                d = self.store.objs[name]
            self._record('download', name, len(d))
            return d
        finally:
            self._leave('download')

    def download_stream(self, name, stream, chunk_size=128_000):
        self._enter('download_stream')
        try:
            self._g('download_stream', name)
            with self.store.lock:
                if name not in self.store.objs:
                    self._record('download_stream', name, None)
                    raise FileNotFoundError(name)
                d = self.store.objs[name]
            stream.truncate(len(d))
            for i in range(0, len(d), chunk_size):
                stream.write(d[i:i + chunk_size])
            self._record('download_stream', name, len(d))
        finally:
            self._leave('download_stream')

    def list_files(self, prefix=''):
        if self.dead:
            raise Killed()
        if self.gate is not None:
            self.gate(self, 'list_files', prefix)
        r = self._list(prefix)
        self._record('list_files', prefix, len(r))
        return r

    def delete(self, name):
        self._enter('delete')
        try:
            self._g('delete', name)
            self._del(name)
            self._record('delete', name)
        finally:
            self._leave('delete')

    def clean(self):
        self._record('clean', '')

    def close(self):
        self.closed = True


class AsyncMemBackend(_Base):
    """coroutine methods: replicat awaits them on its event loop"""

    async def _g(self, op, name):
        if self.gate is not None:
            r = self.gate(self, op, name)
            if hasattr(r, '__await__'):
                await r
        await asyncio.sleep(0)
        if self.dead:
            raise Killed()

    async def exists(self, name):
        self._enter('exists')
        try:
            await self._g('exists', name)
            with self.store.lock:
                r = name in self.store.objs
                self.store.events.append(('exists', name, r, self.client_id))
            self._record('exists', name, r)
            return r
        finally:
            self._leave('exists')

    async def upload(self, name, data):
        self._enter('upload')
        try:
            await self._g('upload', name)
            self._put(name, data)
            self._record('upload', name, len(data))
        finally:
            self._leave('upload')

    async def upload_stream(self, name, stream, length, chunk_size=128_000):
        self._enter('upload_stream')
        try:
            await self._g('upload_stream', name)
            parts = []
            while True:
                b = stream.read(chunk_size)
                if not b:
                    break
                parts.append(bytes(b))
                await asyncio.sleep(0)
            data = b''.join(parts)
            self._put(name, data)
            self._record('upload_stream', name, (len(data), length, chunk_size))
        finally:
            self._leave('upload_stream')

    async def download(self, name):
        self._enter('download')
        try:
            await self._g('download', name)
            if name not in self.store.objs:
                raise FileNotFoundError(name)
            d = self.store.objs[name]
            self._record('download', name, len(d))
            return d
        finally:
            self._leave('download')

    async def download_stream(self, name, stream, chunk_size=128_000):
        self._enter('download_stream')
        try:
            await self._g('download_stream', name)
            if name not in self.store.objs:
                raise FileNotFoundError(name)
            d = self.store.objs[name]
            stream.truncate(len(d))
            for i in range(0, len(d), chunk_size):
                stream.write(d[i:i + chunk_size])
                await asyncio.sleep(0)
            self._record('download_stream', name, len(d))
        finally:
            self._leave('download_stream')

    async def list_files(self, prefix=''):
        if self.dead:
            raise Killed()
        if self.gate is not None:
            r = self.gate(self, 'list_files', prefix)
            if hasattr(r, '__await__'):
                await r
        for n in self._list(prefix):
            yield n

    async def delete(self, name):
        self._enter('delete')
        try:
            await self._g('delete', name)
            self._del(name)
            self._record('delete', name)
        finally:
            self._leave('delete')

    async def clean(self):
        self._record('clean', '')

    async def close(self):
        self.closed = True
