SPECIFICATION Spec
CONSTANTS
  Clients = {1, 2}
  Objects = {"x", "y"}
  MaxLen = 2
  Mutant = "none"
INVARIANT NoPartialVisible
INVARIANT NoPartialExists
CHECK_DEADLOCK FALSE
