------------------------------- MODULE Transfer -------------------------------
(***************************************************************************)
(* C12 - transient backend faults are masked, persistent ones end in a     *)
(* bounded error.  One transfer (upload or download of a payload of        *)
(* NChunks stream chunks) under a retry policy:                            *)
(*                                                                         *)
(*   Send     one more chunk of the current attempt reaches the other side *)
(*   Fault(k) the attempt fails at the current position (before the first  *)
(*            byte, after any number of chunks, after the last one)        *)
(*            kind k: "io" (error / dropped connection), "status" (5xx,    *)
(*            429), "auth" (expired authorisation)                         *)
(*   the adapter then rewinds the stream (seek(0)); "auth" re-authorises   *)
(*   and does not consume the retry budget more than MaxReauth times       *)
(*   Finish   the attempt completes: the destination now holds what this   *)
(*            attempt delivered (an upload replaces the object atomically, *)
(*            a download has written into the truncated target stream)     *)
(*                                                                         *)
(* Invariants: Exact (success => destination = payload), Bounded (number   *)
(* of attempts), Masked (faults within the budget never end in an error),  *)
(* NoPartial (the object visible at the service is never a partial one).   *)
(* Mutants: noRewind (stream not rewound after a failed attempt),          *)
(* noSeekTarget (download target not rewound), reauthResetsBudget (every   *)
(* status fault triggers a re-authorisation with a fresh budget: the       *)
(* behaviour of the B2 adapter before the fix), unboundedRetry.            *)
(***************************************************************************)
EXTENDS Naturals, Sequences, FiniteSets, TLC

CONSTANTS NChunks, MaxTries, MaxReauth, MaxFaults, Direction, Mutant, EmitScripts

Payload == [i \in 1..NChunks |-> i]
Kinds == {"io", "status", "auth"}

VARIABLES attempt,   \* attempts started within the current budget
          total,     \* attempts started altogether
          reauths, srcPos, sent, dst, visible, result, script
vars == <<attempt, total, reauths, srcPos, sent, dst, visible, result, script>>

Init == /\ attempt = 1 /\ total = 1 /\ reauths = 0 /\ srcPos = 0 /\ sent = <<>> /\ dst = <<>>
        /\ visible = <<0>>              \* <<0>>: the old complete object (or nothing); never a partial one
        /\ result = "run" /\ script = <<>>

\* the next chunk the source stream yields
Send == /\ result = "run" /\ srcPos < NChunks
        /\ srcPos' = srcPos + 1
        /\ sent' = Append(sent, Payload[srcPos + 1])
        /\ dst' = IF Direction = "down" THEN Append(dst, Payload[srcPos + 1]) ELSE dst
        /\ UNCHANGED <<attempt, total, reauths, visible, result, script>>

Finish == /\ result = "run" /\ srcPos = NChunks
          /\ visible' = IF Direction = "up" THEN sent ELSE visible
          /\ dst' = IF Direction = "up" THEN sent ELSE dst
          /\ result' = "ok"
          /\ UNCHANGED <<attempt, total, reauths, srcPos, sent, script>>

Fault(k) ==
    /\ result = "run" /\ Len(script) < MaxFaults
    /\ script' = Append(script, <<total, Len(sent), k>>)
    /\ LET reauth == (k = "auth") \/ (Mutant = "reauthResetsBudget" /\ k = "status")
           fresh  == reauth /\ (reauths < MaxReauth \/ Mutant = "reauthResetsBudget")
           left   == fresh \/ attempt < MaxTries \/ Mutant = "unboundedRetry" IN
       IF left
       THEN /\ attempt' = IF fresh THEN 1 ELSE attempt + 1
            /\ total' = total + 1
            /\ reauths' = IF reauth THEN reauths + 1 ELSE reauths
            /\ srcPos' = IF Mutant = "noRewind" THEN srcPos ELSE 0
            /\ sent' = <<>>
            /\ dst' = IF Direction = "down" /\ Mutant # "noSeekTarget" THEN <<>> ELSE dst
            /\ result' = "run"
       ELSE /\ result' = "error" /\ UNCHANGED <<attempt, total, reauths, srcPos, sent, dst>>
    /\ UNCHANGED visible

Next == Send \/ Finish \/ \E k \in Kinds : Fault(k)
Spec == Init /\ [][Next]_vars

Exact == result = "ok" => dst = Payload
NoPartial == visible = <<0>> \/ visible = Payload
Bounded == total <= MaxTries * (MaxReauth + 1) + 1
\* faults that stay within the retry budget are masked
Masked == (result = "error") => (Len(script) >= MaxTries \/ \E i \in DOMAIN script : script[i][3] = "auth")
Emit == (EmitScripts /\ result # "run") => PrintT(<<"F", Direction, script, result>>)
=============================================================================
