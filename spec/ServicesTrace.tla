---------------------------- MODULE ServicesTrace ----------------------------
(* raw requests sent to the fake S3 / B2 services with the responses they gave, replayed through Services.tla *)
EXTENDS Naturals, Sequences, FiniteSets, TLC, TLCExt, Json, IOUtils, SequencesExt
INSTANCE Services
Traces == JsonDeserialize(IOEnv.TRACE_FILE)
VARIABLES tid, l, st, verdict, reported
vars == <<tid, l, st, verdict, reported>>
Tr == Traces[tid]
Ev == Tr.events
NameOf(i) == IF i = 0 THEN <<>> ELSE Tr.names[i]
Names(s) == [i \in DOMAIN s |-> NameOf(s[i])]

ApplyS3(s, e) == CASE e.op = "put" -> S3Put(s, NameOf(e.n), e.body) [] e.op = "delete" -> S3Delete(s, NameOf(e.n)) [] OTHER -> s
ClauseS3(s, e) ==
  CASE e.op \in {"get", "head"} -> LET r == S3Get(s, NameOf(e.n)) IN
                                   IF e.status # r.status THEN "S3:status" ELSE IF e.op = "get" /\ e.status = 200 /\ e.body # r.body THEN "S3:body" ELSE "ok"
    [] e.op = "list" -> LET r == S3List(s, e.prefix, NameOf(e.after), Tr.page) IN
                        IF Names(e.keys) # r.keys THEN "S3:list-keys" ELSE IF e.truncated # r.truncated THEN "S3:list-truncated"
                        ELSE IF e.truncated /\ e.tokenlast # e.keys[Len(e.keys)] THEN "S3:list-token" ELSE "ok"
    [] OTHER -> "ok"
ApplyB2(s, e) == CASE e.op = "upload" -> B2Upload(s, NameOf(e.n), e.body) [] e.op = "hide" -> B2Hide(s, NameOf(e.n)) [] OTHER -> s
ClauseB2(s, e) ==
  CASE e.op \in {"get", "head"} -> LET r == B2Get(s, NameOf(e.n)) IN
                                   IF e.status # r.status THEN "B2:status" ELSE IF e.op = "get" /\ e.status = 200 /\ e.body # r.body THEN "B2:body" ELSE "ok"
    [] e.op = "hide" -> IF e.result # B2HideResult(s, NameOf(e.n)) THEN "B2:hide-result" ELSE "ok"
    [] e.op = "list" -> LET r == B2List(s, e.prefix, NameOf(e.start), Tr.page) IN
                        IF Names(e.names) # r.names THEN "B2:list-names" ELSE IF NameOf(e.next) # r.next THEN "B2:list-next" ELSE "ok"
    [] OTHER -> "ok"
Clause(s, e) == IF Tr.service = "s3" THEN ClauseS3(s, e) ELSE ClauseB2(s, e)
Apply(s, e) == IF Tr.service = "s3" THEN ApplyS3(s, e) ELSE ApplyB2(s, e)

Init == tid \in 1..Len(Traces) /\ l = 1 /\ st = <<>> /\ verdict = "ok" /\ reported = FALSE
Step == /\ ~reported /\ verdict = "ok" /\ l <= Len(Ev)
        /\ LET c == Clause(st, Ev[l]) IN
           /\ verdict' = c
           /\ l' = (IF c = "ok" THEN l + 1 ELSE l)
           /\ st' = (IF c = "ok" THEN Apply(st, Ev[l]) ELSE st)
        /\ UNCHANGED <<tid, reported>>
Report == /\ ~reported /\ (verdict # "ok" \/ l > Len(Ev))
          /\ PrintT(<<"V", tid, l, verdict, "ok">>) /\ reported' = TRUE /\ UNCHANGED <<tid, l, st, verdict>>
Next == Step \/ Report
Spec == Init /\ [][Next]_vars
=============================================================================
