------------------------------ MODULE RateLimit ------------------------------
(***************************************************************************)
(* C20 - the bandwidth limit is respected.  replicat/utils RateLimitedIO:  *)
(* after each read of d bytes that took `real` seconds the wrapper owes    *)
(* max(d/L - real, 0) seconds; pause_reads adds that to a shared debt      *)
(* under a lock (capped at Cap), returns at once while the debt is at most *)
(* Threshold, otherwise sleeps the whole debt while holding the lock and   *)
(* subtracts what it really slept.                                         *)
(*                                                                         *)
(* Integer time: one tick = the time one byte takes at the limit (L = 1    *)
(* byte per tick), a second is S ticks: Threshold = S/4, Cap = S/2 and     *)
(* reads are at most S/4 bytes (the commands choose L/(16*concurrency)).   *)
(*                                                                         *)
(* Window property as a leaky bucket: with deliveries (t_j, b_j), the      *)
(* excess E_j = b_j + max(0, E_{j-1} - (t_j - t_{j-1})) is the maximum over *)
(* all windows ending at t_j of (bytes in the window - L * length).        *)
(* Invariant: E <= Burst = S/2 + (K+1) * dmax.                             *)
(* Mutants: halfExpected (owes d/(2L)), sleepUnlocked (lock released       *)
(* before sleeping and debt reset to zero), noDebt (never sleeps).         *)
(***************************************************************************)
EXTENDS Naturals, Integers, Sequences, FiniteSets, TLC

CONSTANTS S, Streams, Sizes, Lats, MaxOps, MaxTime, Mutant
Threshold == S \div 4
Cap == S \div 2
DMax == CHOOSE d \in Sizes : \A e \in Sizes : e <= d
Burst == Cap + (Cardinality(Streams) + 1) * DMax

VARIABLES now, st, lock, debt, excess, lastT, nops
vars == <<now, st, lock, debt, excess, lastT, nops>>
Idle == [pc |-> "idle", d |-> 0, rem |-> 0, t0 |-> 0, pause |-> 0]
Max2(a, b) == IF a > b THEN a ELSE b

Init == now = 0 /\ st = [s \in Streams |-> Idle] /\ lock = 0 /\ debt = 0 /\ excess = 0 /\ lastT = 0 /\ nops = 0

\* data = self._file.read(size): the underlying I/O takes lat ticks
StartIO(s, d, lat) == /\ st[s].pc = "idle" /\ nops < MaxOps
                      /\ st' = [st EXCEPT ![s] = [pc |-> "io", d |-> d, rem |-> lat, t0 |-> now, pause |-> 0]]
                      /\ nops' = nops + 1 /\ UNCHANGED <<now, lock, debt, excess, lastT>>
\* expected_elapsed - real_elapsed
IoDone(s) == /\ st[s].pc = "io" /\ st[s].rem = 0
             /\ LET expected == IF Mutant = "halfExpected" THEN st[s].d \div 2 ELSE st[s].d IN
                st' = [st EXCEPT ![s].pc = "wantlock", ![s].pause = Max2(expected - (now - st[s].t0), 0)]
             /\ UNCHANGED <<now, lock, debt, excess, lastT, nops>>
Deliver(d) == /\ excess' = d + Max2(0, excess - (now - lastT)) /\ lastT' = now
\* with self._read_lock: debt += seconds ; cap ; threshold test
Acquire(s) == /\ st[s].pc = "wantlock" /\ lock = 0
              /\ LET nd == IF debt + st[s].pause > Cap THEN Cap ELSE debt + st[s].pause IN
                 IF nd <= Threshold \/ Mutant = "noDebt"
                 THEN /\ debt' = nd /\ lock' = 0 /\ st' = [st EXCEPT ![s] = Idle] /\ Deliver(st[s].d)
                 ELSE IF Mutant = "sleepUnlocked"
                 THEN /\ debt' = 0 /\ lock' = 0 /\ st' = [st EXCEPT ![s].pc = "sleep", ![s].rem = nd, ![s].t0 = now]
                      /\ UNCHANGED <<excess, lastT>>
                 ELSE /\ debt' = nd /\ lock' = s /\ st' = [st EXCEPT ![s].pc = "sleep", ![s].rem = nd, ![s].t0 = now]
                      /\ UNCHANGED <<excess, lastT>>
              /\ UNCHANGED <<now, nops>>
\* time.sleep returned: debt -= really slept ; release ; read() returns the data
Wake(s) == /\ st[s].pc = "sleep" /\ st[s].rem = 0
           /\ debt' = IF Mutant = "sleepUnlocked" THEN debt ELSE debt - (now - st[s].t0)
           /\ lock' = IF lock = s THEN 0 ELSE lock
           /\ st' = [st EXCEPT ![s] = Idle] /\ Deliver(st[s].d)
           /\ UNCHANGED <<now, nops>>
\* sleeps are exact (assumption: no oversleep): a sleeper whose time is up wakes before time moves on; so are I/O latencies: the
\* second clock reading follows the underlying read at once (an I/O that "takes longer" is an I/O with a larger lat, i.e. slow I/O)
Tick == /\ now < MaxTime /\ \E s \in Streams : st[s].rem > 0
        /\ \A s \in Streams : ~(st[s].pc \in {"sleep", "io"} /\ st[s].rem = 0)
        /\ now' = now + 1
        /\ st' = [s \in Streams |-> IF st[s].rem > 0 THEN [st[s] EXCEPT !.rem = @ - 1] ELSE st[s]]
        /\ UNCHANGED <<lock, debt, excess, lastT, nops>>
Next == \/ \E s \in Streams, d \in Sizes, lat \in Lats : StartIO(s, d, lat)
        \/ \E s \in Streams : IoDone(s) \/ Acquire(s) \/ Wake(s)
        \/ Tick
Spec == Init /\ [][Next]_vars

RateRespected == excess <= Burst
DebtBounded == 0 <= debt /\ debt <= Cap
LockSound == lock = 0 \/ st[lock].pc = "sleep"
=============================================================================
