------------------------------ MODULE RestorePipe ------------------------------
(***************************************************************************)
(* C09 - restore does not depend on thread scheduling.                     *)
(* replicat/repository.py restore(): one loader task per distinct chunk    *)
(* (at most 2N at a time), each                                            *)
(*   SlotGet -> Download -> SlotPut -> verify -> Write(d,f) for every file *)
(*   that references the chunk (writer threads, one lock per file) ->      *)
(*   then for every referenced file, in turn:                              *)
(*      Remove(d,f)  pending[f] := pending[f] \ {d}   (under the lock)     *)
(*      Test(d,f)    is pending[f] empty?                                  *)
(*      Pop(d,f)     take f's metadata out of the table (under the lock;   *)
(*                   KeyError if it is no longer there) ; utime            *)
(* TestInsideLock = TRUE : the emptiness test is taken in the same         *)
(* critical section as the removal (the code after the fix);               *)
(* FALSE: it is a separate step outside the lock (the code as it was) -    *)
(* two tasks finishing the last two chunks of a file can both see the      *)
(* empty set and both try to pop.                                          *)
(* A download may fail for good (MaxFaults): the slot must come back.      *)
(***************************************************************************)
EXTENDS Naturals, FiniteSets, Sequences, TLC

CONSTANTS N,            \* concurrency (slots); loader pool = 2N
          Chunks, Files, RefsSel, MaxFaults, TestInsideLock

\* which files a chunk belongs to (cfg files cannot hold functions: selected by name)
Refs(d) == CASE RefsSel = "one-file"  -> Files
             [] RefsSel = "two-files" -> IF d = 1 THEN Files ELSE {CHOOSE f \in Files : \A g \in Files : f <= g}
             [] OTHER -> Files

VARIABLES pc, cur, seen, pending, meta, free, inflight, written, finalized, err, faults
vars == <<pc, cur, seen, pending, meta, free, inflight, written, finalized, err, faults>>

Init == /\ pc = [d \in Chunks |-> "queued"] /\ cur = [d \in Chunks |-> 0] /\ seen = [d \in Chunks |-> FALSE]
        /\ pending = [f \in Files |-> {d \in Chunks : f \in Refs(d)}]
        /\ meta = Files /\ free = N /\ inflight = 0
        /\ written = [f \in Files |-> {}] /\ finalized = [f \in Files |-> 0] /\ err = "none" /\ faults = 0

Active == {d \in Chunks : pc[d] \notin {"queued", "done", "failed"}}
Start(d) == /\ pc[d] = "queued" /\ Cardinality(Active) < 2 * N
            /\ pc' = [pc EXCEPT ![d] = "wantslot"]
            /\ UNCHANGED <<cur, seen, pending, meta, free, inflight, written, finalized, err, faults>>
SlotGet(d) == /\ pc[d] = "wantslot" /\ free > 0
              /\ free' = free - 1 /\ inflight' = inflight + 1 /\ pc' = [pc EXCEPT ![d] = "download"]
              /\ UNCHANGED <<cur, seen, pending, meta, written, finalized, err, faults>>
DownloadDone(d) == /\ pc[d] = "download"
                   /\ free' = free + 1 /\ inflight' = inflight - 1 /\ pc' = [pc EXCEPT ![d] = "write"]
                   /\ UNCHANGED <<cur, seen, pending, meta, written, finalized, err, faults>>
DownloadFail(d) == /\ pc[d] = "download" /\ faults < MaxFaults
                   /\ faults' = faults + 1 /\ free' = free + 1 /\ inflight' = inflight - 1
                   /\ pc' = [pc EXCEPT ![d] = "failed"] /\ err' = "download failed"
                   /\ UNCHANGED <<cur, seen, pending, meta, written, finalized>>
\* all writes of the chunk are submitted and awaited before the bookkeeping starts
Write(d, f) == /\ pc[d] = "write" /\ f \in Refs(d) /\ d \notin written[f]
               /\ written' = [written EXCEPT ![f] = @ \cup {d}]
               /\ UNCHANGED <<pc, cur, seen, pending, meta, free, inflight, finalized, err, faults>>
WritesDone(d) == /\ pc[d] = "write" /\ \A f \in Refs(d) : d \in written[f]
                 /\ pc' = [pc EXCEPT ![d] = "next"]
                 /\ UNCHANGED <<cur, seen, pending, meta, free, inflight, written, finalized, err, faults>>
Todo(d) == {f \in Refs(d) : d \in pending[f]}
Pick(d) == /\ pc[d] = "next"
           /\ IF Todo(d) = {} THEN pc' = [pc EXCEPT ![d] = "done"] /\ cur' = cur
              ELSE \E f \in Todo(d) : cur' = [cur EXCEPT ![d] = f] /\ pc' = [pc EXCEPT ![d] = "remove"]
           /\ UNCHANGED <<seen, pending, meta, free, inflight, written, finalized, err, faults>>
Remove(d) == /\ pc[d] = "remove"
             /\ pending' = [pending EXCEPT ![cur[d]] = @ \ {d}]
             /\ seen' = [seen EXCEPT ![d] = IF TestInsideLock THEN pending[cur[d]] \ {d} = {} ELSE seen[d]]
             /\ pc' = [pc EXCEPT ![d] = "test"]
             /\ UNCHANGED <<cur, meta, free, inflight, written, finalized, err, faults>>
Test(d) == /\ pc[d] = "test"
           /\ LET empty == IF TestInsideLock THEN seen[d] ELSE pending[cur[d]] = {} IN
              pc' = [pc EXCEPT ![d] = IF empty THEN "pop" ELSE "next"]
           /\ UNCHANGED <<cur, seen, pending, meta, free, inflight, written, finalized, err, faults>>
Pop(d) == /\ pc[d] = "pop"
          /\ IF cur[d] \in meta
             THEN /\ meta' = meta \ {cur[d]} /\ finalized' = [finalized EXCEPT ![cur[d]] = @ + 1]
                  /\ pc' = [pc EXCEPT ![d] = "next"] /\ err' = err
             ELSE /\ err' = "KeyError" /\ pc' = [pc EXCEPT ![d] = "failed"] /\ UNCHANGED <<meta, finalized>>
          /\ UNCHANGED <<cur, seen, pending, free, inflight, written, faults>>
Next == \E d \in Chunks : Start(d) \/ SlotGet(d) \/ DownloadDone(d) \/ DownloadFail(d) \/ WritesDone(d) \/ Pick(d) \/ Remove(d) \/ Test(d) \/ Pop(d)
                          \/ \E f \in Files : Write(d, f)
Fair == \A d \in Chunks : WF_vars(Start(d)) /\ WF_vars(SlotGet(d)) /\ WF_vars(DownloadDone(d)) /\ WF_vars(WritesDone(d)) /\ WF_vars(Pick(d))
                          /\ WF_vars(Remove(d)) /\ WF_vars(Test(d)) /\ WF_vars(Pop(d)) /\ \A f \in Files : WF_vars(Write(d, f))
Spec == Init /\ [][Next]_vars
FairSpec == Spec /\ Fair

InFlightBound == inflight <= N /\ free + inflight = N
NoSpuriousError == err # "none" => faults > 0
Quiescent == \A d \in Chunks : pc[d] \in {"done", "failed"}
SlotsRestored == Quiescent => free = N
\* a file is finalised at most once, and only after every chunk that belongs to it has been written
FinalisedOnceAfterWrites == \A f \in Files : finalized[f] <= 1 /\ (finalized[f] = 1 => written[f] = {d \in Chunks : f \in Refs(d)})
AllFinalised == (Quiescent /\ faults = 0) => \A f \in Files : finalized[f] = 1
Terminates == <>Quiescent
=============================================================================
