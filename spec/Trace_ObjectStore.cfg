SPECIFICATION TSpec
CONSTANTS
  Names = {}
  Contents = {}
  MaxOps = 0
CHECK_DEADLOCK FALSE
