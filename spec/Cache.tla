-------------------------------- MODULE Cache --------------------------------
(***************************************************************************)
(* C18 - the snapshot cache never changes what a command does.             *)
(* replicat/repository.py _load_snapshots / _download_snapshot_threadsafe: *)
(* for every snapshot object LISTED AT THE BACKEND, in this order          *)
(*    name filter -> ownership tag check (keyed MAC) -> contents from the  *)
(*    cache if an entry exists and its hash matches the name, else         *)
(*    download + hash check + store in the cache -> decrypt                *)
(* delete removes the cache entry with the object.                         *)
(*                                                                         *)
(* Cache directories may be shared by several users (and repositories);    *)
(* an entry is in one of the states an interrupted write can leave:        *)
(*    "none" | "good" | "partial" (non-empty proper prefix) | "empty"       *)
(* Other clients add and delete snapshots behind the cache's back (stale). *)
(*                                                                         *)
(* CacheTransparent: what a load returns for user u is a function of the   *)
(* backend objects and u's keys only.  Mutants: TrustCache (entry used     *)
(* without verification - the code before fix j), ListFromCache (snapshots *)
(* taken from the cache directory instead of the backend listing),         *)
(* SkipTagWhenCached (tag check skipped for cached entries), NoStore,      *)
(* EmptySkipsVerify (a zero-byte entry is neither verified nor replaced by *)
(* a download - seeded change C18_agent3).                                 *)
(*                                                                         *)
(* The chunk side: snapshots 1 and 2 hold the SAME data, so they reference *)
(* the same chunk of their family.  A client that takes snapshot s uploads *)
(* the chunk unless the backend has it; deleting the last snapshot that    *)
(* references a chunk removes it.  ChunksSafe: every listed snapshot has   *)
(* its chunk.  Mutant SkipUploadKnownFromCache (seeded change C02_agent3): *)
(* the uploader believes its cache instead of the backend - after another  *)
(* client's delete the cache is stale and the new snapshot is incomplete.  *)
(***************************************************************************)
EXTENDS Naturals, FiniteSets, TLC

\* a small world: a and b share a key family and a cache directory, c is independent and shares the directory too, d has no cache
UsersDef == {"a", "b", "c", "d"}
FamOfDef == [u \in UsersDef |-> IF u = "c" THEN "F2" ELSE "F1"]
DirsDef == {"shared", "private", "off"}
DirOfDef == [u \in UsersDef |-> CASE u = "a" -> "shared" [] u = "b" -> "private" [] u = "c" -> "shared" [] OTHER -> "off"]
SidsDef == {1, 2, 3}
SnapFamDef == [s \in SidsDef |-> IF s = 3 THEN "F2" ELSE "F1"]
DataOfDef == [s \in SidsDef |-> IF s = 3 THEN "y" ELSE "x"]

CONSTANTS Users, FamOf, Dirs, DirOf, Sids, SnapFam, DataOf, Mutant
\* FamOf[u], SnapFam[s]: key family of a user / of a snapshot; DirOf[u]: cache directory of u ("off" = no cache)

VARIABLES backend,   \* set of snapshot ids listed at the backend
          chunks,    \* set of <<family, datum>>: chunk objects present at the backend
          cache,     \* [Dirs -> [Sids -> "none" | "good" | "partial" | "empty"]]
          result     \* last load: [u, out] out = set of <<sid, status>>  status "loaded" | "error"
vars == <<backend, chunks, cache, result>>

Init == backend = {} /\ chunks = {} /\ cache = [d \in Dirs |-> [s \in Sids |-> "none"]] /\ result = [u |-> "-", out |-> {}, ideal |-> {}]

\* what the command must see, whatever the cache holds
Ideal(u) == {<<s, "loaded">> : s \in {x \in backend : SnapFam[x] = FamOf[u]}}

LoadOne(u, s, entry) ==
    IF SnapFam[s] # FamOf[u] /\ ~(Mutant = "SkipTagWhenCached" /\ entry # "none") THEN "skipped"       \* invalid tag
    ELSE IF entry = "good" THEN (IF SnapFam[s] = FamOf[u] THEN "loaded" ELSE "error")                  \* foreign snapshot decrypted with the wrong keys
    ELSE IF entry \in {"partial", "empty"} /\ Mutant = "TrustCache" THEN "error"                          \* json.loads of a truncated entry
    ELSE IF entry = "empty" /\ Mutant = "EmptySkipsVerify" THEN "error"                                  \* b'' is falsy: no digest check, no download
    ELSE IF SnapFam[s] = FamOf[u] THEN "loaded" ELSE "error"                                            \* miss (or rejected entry): download, verify

Load(u) ==
    /\ LET d == DirOf[u]
           listed == IF Mutant = "ListFromCache" /\ d # "off" THEN backend \cup {s \in Sids : cache[d][s] # "none"} ELSE backend
           out == {<<s, LoadOne(u, s, IF d = "off" THEN "none" ELSE cache[d][s])>> : s \in listed}
       IN /\ result' = [u |-> u, out |-> {x \in out : x[2] # "skipped"}, ideal |-> Ideal(u)]
          /\ cache' = IF d = "off" \/ Mutant = "NoStore" THEN cache
                      ELSE [cache EXCEPT ![d] = [s \in Sids |-> IF s \in backend /\ SnapFam[s] = FamOf[u] THEN "good" ELSE @[s]]]
    /\ UNCHANGED <<backend, chunks>>
\* another client (any cache or none) takes / deletes a snapshot; the deleter removes its own cache entry only
\* user u takes snapshot s: the chunk is uploaded unless it is believed to be stored, then the snapshot object is written
Chunk(s) == <<SnapFam[s], DataOf[s]>>
KnownFromCache(u, s) == DirOf[u] # "off" /\ \E t \in Sids : cache[DirOf[u]][t] = "good" /\ Chunk(t) = Chunk(s)
Add(u, s) == /\ s \notin backend /\ SnapFam[s] = FamOf[u] /\ backend' = backend \cup {s}
             /\ chunks' = IF Mutant = "SkipUploadKnownFromCache" /\ KnownFromCache(u, s) THEN chunks ELSE chunks \cup {Chunk(s)}
             /\ UNCHANGED <<cache, result>>
\* delete removes the snapshot, the chunks nobody else references, and the deleter's own cache entry
Delete(u, s) == /\ s \in backend /\ SnapFam[s] = FamOf[u] /\ backend' = backend \ {s}
                /\ chunks' = IF \E t \in backend \ {s} : Chunk(t) = Chunk(s) THEN chunks ELSE chunks \ {Chunk(s)}
                /\ cache' = IF DirOf[u] = "off" THEN cache ELSE [cache EXCEPT ![DirOf[u]][s] = "none"]
                /\ UNCHANGED result
\* an interrupted run leaves a truncated entry (also for snapshots that are listed): a proper prefix or an empty file
Interrupt(d, s) == d # "off" /\ \E st \in {"partial", "empty"} : cache' = [cache EXCEPT ![d][s] = st] /\ UNCHANGED <<backend, chunks, result>>

Next == \/ \E u \in Users : Load(u) \/ \E s \in Sids : (Delete(u, s) \/ Add(u, s))
        \/ \E d \in Dirs, s \in Sids : Interrupt(d, s)
Spec == Init /\ [][Next]_vars

CacheTransparent == result.out = result.ideal
ChunksSafe == \A s \in backend : Chunk(s) \in chunks
=============================================================================
