-------------------------------- MODULE Cache --------------------------------
(***************************************************************************)
(* C18 - the snapshot cache never changes what a command does.             *)
(* replicat/repository.py _load_snapshots / _download_snapshot_threadsafe: *)
(* for every snapshot object LISTED AT THE BACKEND, in this order          *)
(*    name filter -> ownership tag check (keyed MAC) -> contents from the  *)
(*    cache if an entry exists and its hash matches the name, else         *)
(*    download + hash check + store in the cache -> decrypt                *)
(* delete removes the cache entry with the object.                         *)
(*                                                                         *)
(* Cache directories may be shared by several users (and repositories);    *)
(* an entry is in one of the states an interrupted write can leave:        *)
(*    "none" | "good" | "partial" (proper prefix, empty file included)     *)
(* Other clients add and delete snapshots behind the cache's back (stale). *)
(*                                                                         *)
(* CacheTransparent: what a load returns for user u is a function of the   *)
(* backend objects and u's keys only.  Mutants: TrustCache (entry used     *)
(* without verification - the code before fix j), ListFromCache (snapshots *)
(* taken from the cache directory instead of the backend listing),         *)
(* SkipTagWhenCached (tag check skipped for cached entries), NoStore.      *)
(***************************************************************************)
EXTENDS Naturals, FiniteSets, TLC

\* a small world: a and b share a key family and a cache directory, c is independent and shares the directory too, d has no cache
UsersDef == {"a", "b", "c", "d"}
FamOfDef == [u \in UsersDef |-> IF u = "c" THEN "F2" ELSE "F1"]
DirsDef == {"shared", "private", "off"}
DirOfDef == [u \in UsersDef |-> CASE u = "a" -> "shared" [] u = "b" -> "private" [] u = "c" -> "shared" [] OTHER -> "off"]
SidsDef == {1, 2, 3}
SnapFamDef == [s \in SidsDef |-> IF s = 3 THEN "F2" ELSE "F1"]

CONSTANTS Users, FamOf, Dirs, DirOf, Sids, SnapFam, Mutant
\* FamOf[u], SnapFam[s]: key family of a user / of a snapshot; DirOf[u]: cache directory of u ("off" = no cache)

VARIABLES backend,   \* set of snapshot ids listed at the backend
          cache,     \* [Dirs -> [Sids -> "none" | "good" | "partial"]]
          result     \* last load: [u, out] out = set of <<sid, status>>  status "loaded" | "error"
vars == <<backend, cache, result>>

Init == backend = {} /\ cache = [d \in Dirs |-> [s \in Sids |-> "none"]] /\ result = [u |-> "-", out |-> {}, ideal |-> {}]

\* what the command must see, whatever the cache holds
Ideal(u) == {<<s, "loaded">> : s \in {x \in backend : SnapFam[x] = FamOf[u]}}

LoadOne(u, s, entry) ==
    IF SnapFam[s] # FamOf[u] /\ ~(Mutant = "SkipTagWhenCached" /\ entry # "none") THEN "skipped"       \* invalid tag
    ELSE IF entry = "good" THEN (IF SnapFam[s] = FamOf[u] THEN "loaded" ELSE "error")                  \* foreign snapshot decrypted with the wrong keys
    ELSE IF entry = "partial" /\ Mutant = "TrustCache" THEN "error"                                     \* json.loads of a truncated entry
    ELSE IF SnapFam[s] = FamOf[u] THEN "loaded" ELSE "error"                                            \* miss (or rejected entry): download, verify

Load(u) ==
    /\ LET d == DirOf[u]
           listed == IF Mutant = "ListFromCache" /\ d # "off" THEN backend \cup {s \in Sids : cache[d][s] # "none"} ELSE backend
           out == {<<s, LoadOne(u, s, IF d = "off" THEN "none" ELSE cache[d][s])>> : s \in listed}
       IN /\ result' = [u |-> u, out |-> {x \in out : x[2] # "skipped"}, ideal |-> Ideal(u)]
          /\ cache' = IF d = "off" \/ Mutant = "NoStore" THEN cache
                      ELSE [cache EXCEPT ![d] = [s \in Sids |-> IF s \in backend /\ SnapFam[s] = FamOf[u] THEN "good" ELSE @[s]]]
    /\ UNCHANGED backend
\* another client (any cache or none) takes / deletes a snapshot; the deleter removes its own cache entry only
Add(s) == s \notin backend /\ backend' = backend \cup {s} /\ UNCHANGED <<cache, result>>
Delete(u, s) == /\ s \in backend /\ SnapFam[s] = FamOf[u] /\ backend' = backend \ {s}
                /\ cache' = IF DirOf[u] = "off" THEN cache ELSE [cache EXCEPT ![DirOf[u]][s] = "none"]
                /\ UNCHANGED result
\* an interrupted run leaves a truncated entry (also for snapshots that are listed)
Interrupt(d, s) == d # "off" /\ cache' = [cache EXCEPT ![d][s] = "partial"] /\ UNCHANGED <<backend, result>>

Next == \/ \E u \in Users : Load(u) \/ \E s \in Sids : Delete(u, s)
        \/ \E s \in Sids : Add(s)
        \/ \E d \in Dirs, s \in Sids : Interrupt(d, s)
Spec == Init /\ [][Next]_vars

CacheTransparent == result.out = result.ideal
=============================================================================
