------------------------------- MODULE Repo -------------------------------
(***************************************************************************)
(* The replicat repository as a content-addressed object store shared by   *)
(* several key holders and client processes.                               *)
(*                                                                         *)
(* One action per backend call or per in-memory decision of the commands   *)
(* snapshot / delete / clean (replicat/repository.py), plus Crash (process *)
(* disappears) and Fail (one backend call fails for good).                 *)
(*                                                                         *)
(* Object names:  <<"c", fam, cid>>  chunk object of key family fam that   *)
(*                                   holds plaintext chunk cid             *)
(*                <<"s", sid>>       snapshot object number sid            *)
(* Names are injective in (family, content) exactly as MAC(MAC(digest)) /  *)
(* MAC(digest) are in the code; the conformance harness establishes that   *)
(* by decoding every object with an independent codec.                     *)
(*                                                                         *)
(* Properties: C02 Safety, C03 Safety under Crash/Fail + CleanCollects,    *)
(* C06 Confined / refusals, C07 DedupExact + UploadOnlyIfAbsent,           *)
(* C08 DeleteComplete / CleanExact / Confined.                             *)
(***************************************************************************)
EXTENDS Naturals, FiniteSets, Sequences, TLC, RepoProps

CONSTANTS KeyGraph,   \* "plain" | "same" | "shared" | "indep" | "mixed"
          Procs,      \* client processes
          Cids,       \* plaintext chunk identities
          MaxSnaps,   \* bound on snapshot objects ever created
          MaxFaults,  \* bound on Crash + Fail steps
          Mutant      \* "none" or the name of a seeded design error (must be caught)

(* ---- key graph ------------------------------------------------------- *)
\* "chain": a owner, b shared from a, c shared from b (shared-of-shared), d independent
Users == IF KeyGraph = "mixed" THEN {"a", "b", "c"} ELSE IF KeyGraph = "chain" THEN {"a", "b", "c", "d"} ELSE {"a", "b"}
FamOf(u) == CASE KeyGraph = "plain"  -> "P"
              [] KeyGraph = "same"   -> "F1"
              [] KeyGraph = "shared" -> "F1"
              [] KeyGraph = "indep"  -> IF u = "a" THEN "F1" ELSE "F2"
              [] KeyGraph = "mixed"  -> IF u = "c" THEN "F2" ELSE "F1"
              [] KeyGraph = "chain"  -> IF u = "d" THEN "F2" ELSE "F1"
\* the user key protects the private half of a snapshot; a clone/shared key has its own
UKeyOf(u) == CASE KeyGraph = "plain" -> "P"
               [] KeyGraph = "same"  -> "a"
               [] OTHER              -> u
Fams == {FamOf(u) : u \in Users}
Sids == 1..MaxSnaps

VARIABLES objs,    \* set of object names present at the backend
          body,    \* sid -> [fam, ukey, table]  (immutable once created)
          nsnap,   \* number of snapshot ids handed out
          op,      \* per process: the command in progress
          dirty,   \* per family: TRUE when an interrupted command may have left orphans
          faults,  \* Crash/Fail steps so far
          last     \* history: the last action with its arguments (hidden by VIEW)
vars == <<objs, body, nsnap, op, dirty, faults, last>>
view == <<objs, body, nsnap, op, dirty, faults>>

Idle == [kind |-> "idle"]
ChunkName(f, c) == <<"c", f, c>>
SnapName(s) == <<"s", s>>

Listed == {s \in 1..nsnap : SnapName(s) \in objs}
ChunkSet == {<<o[2], o[3]>> : o \in {x \in objs : x[1] = "c"}}   \* projection used by RepoProps
Visible(u) == {s \in Listed : body[s].fam = FamOf(u)}          \* ownership tag verifies
Readable(u) == {s \in Visible(u) : body[s].ukey = UKeyOf(u)}   \* private data decrypts
Tables(S) == UNION {body[s].table : s \in S}
ChunksOf(f) == {c \in Cids : ChunkName(f, c) \in objs}

AllIdle == \A p \in Procs : op[p].kind = "idle"
NoDestructive == \A p \in Procs : op[p].kind \notin {"del", "clean"}

Init == /\ objs = {} /\ body = <<>> /\ nsnap = 0
        /\ op = [p \in Procs |-> Idle]
        /\ dirty = [f \in Fams |-> FALSE]
        /\ faults = 0
        /\ last = [a |-> "Init"]

(* ---- snapshot -------------------------------------------------------- *)
\* README: non-destructive commands may overlap with each other, destructive ones run alone
SnapBegin(p, u, T) ==
    /\ op[p].kind = "idle" /\ NoDestructive
    /\ nsnap + Cardinality({q \in Procs : op[q].kind = "snap"}) < MaxSnaps
    /\ op' = [op EXCEPT ![p] = [kind |-> "snap", u |-> u, T |-> T, todo |-> T, absent |-> {},
                                had |-> ChunksOf(FamOf(u)), failed |-> FALSE]]
    /\ last' = [a |-> "SnapBegin", p |-> p, u |-> u, T |-> T]
    /\ UNCHANGED <<objs, body, nsnap, dirty, faults>>

\* worker: exists(location) answers
SnapCheck(p, c) ==
    /\ op[p].kind = "snap" /\ c \in op[p].todo
    /\ LET present == ChunkName(FamOf(op[p].u), c) \in objs IN
       /\ op' = [op EXCEPT ![p].todo = @ \ {c},
                           ![p].absent = IF present /\ Mutant # "alwaysUpload" THEN @ ELSE @ \cup {c}]
       /\ last' = [a |-> "SnapCheck", p |-> p, c |-> c, r |-> present]
    /\ UNCHANGED <<objs, body, nsnap, dirty, faults>>

\* worker: upload_stream(location) completes
SnapUpload(p, c) ==
    /\ op[p].kind = "snap" /\ c \in op[p].absent
    /\ objs' = objs \cup {ChunkName(FamOf(op[p].u), c)}
    /\ op' = [op EXCEPT ![p].absent = @ \ {c}]
    /\ last' = [a |-> "SnapUpload", p |-> p, c |-> c]
    /\ UNCHANGED <<body, nsnap, dirty, faults>>

\* main coroutine: gather(workers) returned, producer finished -> upload the snapshot object
SnapCommit(p) ==
    /\ op[p].kind = "snap" /\ ~op[p].failed
    /\ op[p].todo = {}
    /\ (Mutant # "earlyCommit") => op[p].absent = {}
    /\ nsnap' = nsnap + 1
    /\ body' = body @@ ((nsnap + 1) :> [fam |-> FamOf(op[p].u), ukey |-> UKeyOf(op[p].u), table |-> op[p].T])
    /\ objs' = objs \cup {SnapName(nsnap + 1)}
    /\ op' = [op EXCEPT ![p] = IF op[p].absent = {} THEN Idle ELSE [@ EXCEPT !.kind = "snapTail"]]
    /\ last' = [a |-> "SnapCommit", p |-> p, s |-> nsnap + 1]
    /\ UNCHANGED <<dirty, faults>>

\* only reachable under Mutant = "earlyCommit"
SnapTail(p, c) ==
    /\ op[p].kind = "snapTail" /\ c \in op[p].absent
    /\ objs' = objs \cup {ChunkName(FamOf(op[p].u), c)}
    /\ op' = [op EXCEPT ![p] = IF op[p].absent = {c} THEN Idle ELSE [@ EXCEPT !.absent = @ \ {c}]]
    /\ last' = [a |-> "SnapTail", p |-> p, c |-> c]
    /\ UNCHANGED <<body, nsnap, dirty, faults>>

\* a snapshot whose worker failed ends without commit once the producer has stopped
SnapAbortEnd(p) ==
    /\ op[p].kind = "snap" /\ op[p].failed
    /\ op' = [op EXCEPT ![p] = Idle]
    /\ last' = [a |-> "SnapAbortEnd", p |-> p]
    /\ UNCHANGED <<objs, body, nsnap, dirty, faults>>

(* ---- delete ---------------------------------------------------------- *)
\* delete_snapshots: load every snapshot with a valid tag; refuse unknown / undecryptable names
DelKeep(u, D) ==
    LET others == Visible(u) \ D IN
    CASE Mutant = "nokeep"           -> {}
      [] Mutant = "keepReadableOnly" -> Tables(others \cap Readable(u))
      [] OTHER                       -> Tables(others)

DelBegin(p, u, D) ==
    /\ AllIdle /\ D # {} /\ D \subseteq Sids
    /\ IF D \subseteq Readable(u) \/ (Mutant = "noRefuse" /\ D \subseteq Visible(u))
       THEN /\ op' = [op EXCEPT ![p] = [kind |-> "del", u |-> u, D |-> D, sn |-> D,
                                        ch |-> Tables(D) \ DelKeep(u, D), failed |-> FALSE]]
            /\ last' = [a |-> "DelBegin", p |-> p, u |-> u, D |-> D, r |-> "ok"]
       ELSE /\ op' = op      \* refused before anything is deleted
            /\ last' = [a |-> "DelBegin", p |-> p, u |-> u, D |-> D, r |-> "refused"]
    /\ UNCHANGED <<objs, body, nsnap, dirty, faults>>

DelSn(p, s) ==
    /\ op[p].kind = "del" /\ s \in op[p].sn
    /\ objs' = objs \ {SnapName(s)}
    /\ op' = [op EXCEPT ![p].sn = @ \ {s}]
    /\ last' = [a |-> "DelSn", p |-> p, s |-> s]
    /\ UNCHANGED <<body, nsnap, dirty, faults>>

\* chunk objects only after every snapshot object is gone (second gather)
DelCh(p, c) ==
    /\ op[p].kind \in {"del", "clean"} /\ c \in op[p].ch
    /\ (op[p].kind = "del" /\ Mutant # "chunksFirst") => op[p].sn = {}
    /\ objs' = objs \ {ChunkName(FamOf(op[p].u), c)}
    /\ op' = [op EXCEPT ![p].ch = @ \ {c}]
    /\ last' = [a |-> "DelCh", p |-> p, c |-> c]
    /\ UNCHANGED <<body, nsnap, dirty, faults>>

(* ---- clean ----------------------------------------------------------- *)
CleanBegin(p, u) ==
    /\ AllIdle
    /\ LET ref  == Tables(IF Mutant = "noSnapTag" THEN Listed ELSE Visible(u))
           mine == IF Mutant = "noChunkTag" THEN UNION {ChunksOf(f) : f \in Fams} ELSE ChunksOf(FamOf(u))
           del  == IF Mutant = "cleanInverted" THEN mine \cap ref ELSE mine \ ref
       IN op' = [op EXCEPT ![p] = [kind |-> "clean", u |-> u, D |-> {}, sn |-> {}, ch |-> del, failed |-> FALSE]]
    /\ last' = [a |-> "CleanBegin", p |-> p, u |-> u]
    /\ UNCHANGED <<objs, body, nsnap, dirty, faults>>

\* Mutant "noChunkTag": the chunk is removed under whatever family it belongs to
CleanAnyCh(p, f, c) ==
    /\ Mutant = "noChunkTag" /\ op[p].kind = "clean" /\ c \in op[p].ch /\ ChunkName(f, c) \in objs
    /\ objs' = objs \ {ChunkName(f, c)}
    /\ op' = [op EXCEPT ![p].ch = IF \E g \in Fams \ {f} : ChunkName(g, c) \in objs THEN @ ELSE @ \ {c}]
    /\ last' = [a |-> "CleanAnyCh", p |-> p, c |-> c]
    /\ UNCHANGED <<body, nsnap, dirty, faults>>

End(p) ==
    /\ op[p].kind \in {"del", "clean"} /\ op[p].sn = {} /\ op[p].ch = {} /\ ~op[p].failed
    /\ op' = [op EXCEPT ![p] = Idle]
    /\ dirty' = IF op[p].kind = "clean" THEN [dirty EXCEPT ![FamOf(op[p].u)] = FALSE] ELSE dirty
    /\ last' = [a |-> "End", p |-> p, k |-> op[p].kind]
    /\ UNCHANGED <<objs, body, nsnap, faults>>

(* ---- interruption ---------------------------------------------------- *)
\* the process is killed: whatever it has not done yet never happens
Crash(p) ==
    /\ op[p].kind # "idle" /\ faults < MaxFaults
    /\ op' = [op EXCEPT ![p] = Idle]
    /\ dirty' = [dirty EXCEPT ![FamOf(op[p].u)] = TRUE]
    /\ faults' = faults + 1
    /\ last' = [a |-> "Crash", p |-> p]
    /\ UNCHANGED <<objs, body, nsnap>>

\* one backend call fails for good: the command raises, calls already in flight may still complete,
\* but no later phase starts (no commit; no chunk deletion if a snapshot deletion failed)
Fail(p) ==
    /\ op[p].kind \in {"snap", "del", "clean"} /\ ~op[p].failed /\ faults < MaxFaults
    \* a failure while snapshot objects are being deleted: the chunk phase never starts
    /\ op' = [op EXCEPT ![p] = IF op[p].kind = "del" /\ op[p].sn # {} /\ Mutant # "chunksFirst"
                                THEN [@ EXCEPT !.failed = TRUE, !.ch = {}] ELSE [@ EXCEPT !.failed = TRUE]]
    /\ dirty' = [dirty EXCEPT ![FamOf(op[p].u)] = TRUE]
    /\ faults' = faults + 1
    /\ last' = [a |-> "Fail", p |-> p]
    /\ UNCHANGED <<objs, body, nsnap>>

\* a failed delete/clean: deletions of the current phase that were in flight may still land
\* (DelSn / DelCh stay enabled), then the command ends with the error
FailedEnd(p) ==
    /\ op[p].kind \in {"del", "clean"} /\ op[p].failed
    /\ op' = [op EXCEPT ![p] = Idle]
    /\ last' = [a |-> "FailedEnd", p |-> p]
    /\ UNCHANGED <<objs, body, nsnap, dirty, faults>>

Next == \E p \in Procs :
          \/ \E u \in Users, T \in (SUBSET Cids) \ {{}} : SnapBegin(p, u, T)
          \/ \E c \in Cids : SnapCheck(p, c) \/ SnapUpload(p, c) \/ SnapTail(p, c) \/ DelCh(p, c)
          \/ \E c \in Cids, f \in Fams : CleanAnyCh(p, f, c)
          \/ SnapCommit(p) \/ SnapAbortEnd(p) \/ End(p) \/ Crash(p) \/ Fail(p) \/ FailedEnd(p)
          \/ \E u \in Users : CleanBegin(p, u) \/ \E D \in (SUBSET Listed) \ {{}} : DelBegin(p, u, D)
          \/ \E s \in Sids : DelSn(p, s)

Spec == Init /\ [][Next]_vars
\* state constraint for behaviours in which the client processes only take (overlapping) snapshots
OnlySnapshots == \A p \in Procs : op[p].kind \notin {"del", "clean"}

(* ======================== properties ================================== *)
TypeOK == /\ \A o \in objs : (o[1] = "c" /\ o[2] \in Fams /\ o[3] \in Cids) \/ (o[1] = "s" /\ o[2] \in 1..nsnap)
          /\ DOMAIN body = 1..nsnap

\* C02 / C03: every listed snapshot is complete - in every state, mid-command and post-crash included
Safety == SafetyOf(ChunkSet, {}, Listed, body)

Finishing(p) == op[p].kind \in {"del", "clean"} /\ ~op[p].failed /\ op'[p].kind = "idle" /\ faults' = faults

\* C08: when clean completes, the caller's family holds exactly the referenced chunks
CleanExact == [][\A p \in Procs, f \in Fams : (Finishing(p) /\ op[p].kind = "clean" /\ f = FamOf(op[p].u)) =>
                   CleanExactOf(ChunkSet', Listed', body', f)]_vars

\* C08: when delete completes, chunks referenced only by the deleted snapshots are gone
DeleteComplete == [][\A p \in Procs, f \in Fams : (Finishing(p) /\ op[p].kind = "del" /\ f = FamOf(op[p].u)) =>
                   DeleteCompleteOf(ChunkSet', Listed', body', f, op[p].D)]_vars

\* C06 / C08: whatever disappears belongs to the family of a user running a destructive command,
\* and snapshot objects only disappear if that user can read them
Confined == [][\A o \in objs \ objs' : \E p \in Procs :
                 /\ op[p].kind \in {"del", "clean"}
                 /\ (o[1] = "c" => o[2] = FamOf(op[p].u))
                 /\ (o[1] = "s" => (op[p].kind = "del" /\ body[o[2]].ukey = UKeyOf(op[p].u) /\ body[o[2]].fam = FamOf(op[p].u)))]_vars

\* C07: in a state with no command in progress and no interrupted command since the family's last
\* clean, the chunk objects of a family are precisely the distinct chunks referenced
DedupExact == \A f \in Fams : (AllIdle /\ ~dirty[f]) => DedupExactOf(ChunkSet, Listed, body, f)

\* C07: no payload is transferred for a chunk the family already held when the snapshot began
\* ("taking a snapshot of unchanged data transfers no chunk payload")
RepeatNoUpload == [][\A p \in Procs, c \in Cids :
                       (op[p].kind = "snap" /\ op'[p].kind \in {"snap", "snapTail"} /\ c \in op[p].absent /\ c \notin op'[p].absent)
                         => c \notin op[p].had]_vars

\* C03: after any interruption the next clean run by a member of the family collects every orphan;
\* this is CleanExact evaluated on behaviours that contain Crash/Fail (MaxFaults > 0).
=============================================================================
