SPECIFICATION Spec
CONSTANTS
  Users <- UsersDef
  FamOf <- FamOfDef
  Dirs <- DirsDef
  DirOf <- DirOfDef
  Sids <- SidsDef
  SnapFam <- SnapFamDef
  Mutant = "none"
INVARIANT CacheTransparent
CHECK_DEADLOCK FALSE
