SPECIFICATION Spec
CONSTANTS
  Users <- UsersDef
  FamOf <- FamOfDef
  Dirs <- DirsDef
  DirOf <- DirOfDef
  Sids <- SidsDef
  SnapFam <- SnapFamDef
  DataOf <- DataOfDef
  Mutant = "none"
INVARIANT CacheTransparent
INVARIANT ChunksSafe
CHECK_DEADLOCK FALSE
