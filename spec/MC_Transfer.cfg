SPECIFICATION Spec
CONSTANTS
  NChunks = 3
  MaxTries = 4
  MaxReauth = 3
  MaxFaults = 5
  Direction = "up"
  Mutant = "none"
  EmitScripts = FALSE
INVARIANT Exact
INVARIANT NoPartial
INVARIANT Bounded
INVARIANT Masked
INVARIANT Emit
CHECK_DEADLOCK FALSE
