SPECIFICATION Spec
CONSTANTS
  Names <- SmallNames
  Contents = {1, 2}
  MaxOps = 4
INVARIANT ListSound
PROPERTY UploadThenVisible
PROPERTY DeleteIdempotent
CHECK_DEADLOCK FALSE
