SPECIFICATION Spec
CONSTANTS
  KeyGraph = "mixed"
  Procs = {1}
  Cids = {1, 2, 3}
  MaxSnaps = 3
  MaxFaults = 1
  Mutant = "none"
CHECK_DEADLOCK FALSE
