------------------------------- MODULE AtRest -------------------------------
(***************************************************************************)
(* C05 - an encrypted repository reveals no plaintext at rest.             *)
(* Symbolic (Dolev-Yao style) model of everything replicat writes:         *)
(*   terms   <<"atom", a>> | <<"enc", key, nonce, payload>> |              *)
(*           <<"mac", key, msg>> | <<"hash", msg>> | <<"kdf", key, ctx>> | *)
(*           <<"tup", t1, t2, ...>>  (JSON objects / lists)                *)
(* The observer of the backend and of the key files knows every written    *)
(* name and body and closes that knowledge under projection, hashing and   *)
(* decryption with keys it knows.  Invariants:                             *)
(*   NoSecretKnown   no secret atom (contents, file names, metadata, note, *)
(*                   content digests, key material, passwords) is derivable*)
(*   NonceUnique     no two different ciphertexts share (key, nonce)       *)
(* Mutants: nameIsDigest, privatePlain, tableKeyFromPublic, nonceCounter,  *)
(* dataUnderSharedKeyPlainName ... each must violate one of them.          *)
(***************************************************************************)
EXTENDS Naturals, Sequences, FiniteSets, TLC

CONSTANTS Procs, Contents, Mutant
A(x) == <<"atom", x, 0>>
A2(x, i) == <<"atom", x, i>>
Enc(k, n, p) == <<"enc", k, n, p>>
Mac(k, m) == <<"mac", k, m>>
Hash(m) == <<"hash", m>>
Kdf(k, c) == <<"kdf", k, c>>

SharedKey == A("shared_key")  MacKey == A("mac_key")  ChunkerKey == A("chunker_key")  SharedSalt == A("shared_kdf_salt")
UserKey == A("user_key")      Password == A("password")
Salt == A("user_kdf_salt")    Algo == A("algorithm_settings")
Content(c) == A2("content", c)
Digest(c) == A2("digest", c)        \* the digest of a chunk is itself a secret (it identifies the content)
FileNames == A("file_names")  Meta == A("metadata")  Note == A("note")
Secrets == {SharedKey, MacKey, ChunkerKey, SharedSalt, UserKey, Password, FileNames, Meta, Note}
             \cup {Content(c) : c \in Contents} \cup {Digest(c) : c \in Contents}

VARIABLES written,   \* set of <<name term, body term>>
          ctr,       \* per process nonce counter (only used by the nonceCounter mutant)
          fresh,     \* next globally fresh nonce id (random nonces never repeat)
          inited
vars == <<written, ctr, fresh, inited>>

Nonce(p) == IF Mutant = "nonceCounter" THEN <<"ctr", ctr[p]>> ELSE <<"rnd", fresh>>
Bump(p) == /\ ctr' = [ctr EXCEPT ![p] = @ + 1] /\ fresh' = fresh + 1

Init == written = {} /\ ctr = [p \in Procs |-> 0] /\ fresh = 0 /\ inited = FALSE

\* init: config in the clear (algorithm settings only), key file with the private section under the password-derived key
DoInit(p) ==
    /\ ~inited /\ inited' = TRUE
    /\ LET private == <<"tup", SharedKey, SharedSalt, MacKey, ChunkerKey>>
           keyfile == <<"tup", Algo, Salt, IF Mutant = "privatePlain" THEN private ELSE Enc(UserKey, Nonce(p), private)>>
       IN written' = written \cup {<<A("config"), Algo>>, <<A("keyfile"), keyfile>>}
    /\ Bump(p)

\* snapshot of one chunk c: chunk object + snapshot object (two ciphertexts under different keys, then the table)
ChunkName(c) == IF Mutant = "nameIsDigest" THEN Digest(c) ELSE Mac(MacKey, Digest(c))
DoChunk(p, c) ==
    /\ inited
    /\ written' = written \cup {<<<<"tup", ChunkName(c), Mac(MacKey, ChunkName(c))>>, Enc(Kdf(SharedKey, Digest(c)), Nonce(p), Content(c))>>}
    /\ Bump(p)
DoSnapshot(p, c) ==
    /\ inited
    /\ LET data == Enc(UserKey, Nonce(p), <<"tup", FileNames, Meta, Note>>)
           tkey == IF Mutant = "tableKeyFromPublic" THEN Hash(data) ELSE Kdf(SharedKey, Hash(data))
           \* the second ciphertext of the same process uses its next nonce
           n2 == IF Mutant = "nonceCounter" THEN <<"ctr", ctr[p] + 1>> ELSE <<"rnd", fresh + 1>>
           body == <<"tup", Enc(tkey, n2, <<"tup", Digest(c)>>), data>>
       IN written' = written \cup {<<<<"tup", Hash(body), Mac(MacKey, Hash(body))>>, body>>}
    /\ ctr' = [ctr EXCEPT ![p] = @ + 2] /\ fresh' = fresh + 2
    /\ UNCHANGED inited
\* a new process starts: its counter starts again (random nonces are unaffected)
Restart(p) == /\ ctr' = [ctr EXCEPT ![p] = 0] /\ UNCHANGED <<written, fresh, inited>>

Next == \E p \in Procs : DoInit(p) \/ Restart(p) \/ \E c \in Contents : (DoChunk(p, c) /\ UNCHANGED inited) \/ DoSnapshot(p, c)
Spec == Init /\ [][Next]_vars
Bound == fresh <= 7

(* ---- the observer ----------------------------------------------------- *)
Parts(t) == IF t[1] = "tup" THEN {t[i] : i \in 2..Len(t)} ELSE {}
Step(K) == K \cup UNION {Parts(t) : t \in K}
             \cup {t[4] : t \in {x \in K : x[1] = "enc" /\ x[2] \in K}}                 \* decrypt with a known key
             \cup {Hash(t) : t \in {x \in K : x[1] = "enc"}}                             \* hashing what one sees is free
Know0 == {w[1] : w \in written} \cup {w[2] : w \in written}
Know == Step(Step(Step(Step(Step(Know0)))))
NoSecretKnown == Know \cap Secrets = {}

Ciphertexts == {t \in Step(Step(Step(Know0))) : t[1] = "enc"}
NonceUnique == \A a, b \in Ciphertexts : (a[2] = b[2] /\ a[3] = b[3]) => a = b
=============================================================================
