---------------------------- MODULE SnapshotPipe ----------------------------
(***************************************************************************)
(* C09 / commit-order clause of C03 - the snapshot pipeline of             *)
(* replicat/repository.py snapshot(): a producer THREAD chunks the stream  *)
(* and puts chunks into a bounded queue; N worker COROUTINES on the event   *)
(* loop take chunks, check existence and upload through the N slots; the   *)
(* loop-side view of the producer future (loopDone) flips in a loop step of *)
(* its own, which is why `not queue.empty() or not producer.done()` cannot *)
(* lose the last chunk; gather(workers) ; await producer ; commit.         *)
(* One action = one critical section / one run-to-next-await.              *)
(* Mutants: doneOnly (worker loop tests only producer.done()),             *)
(* firstCompleted (commit after the first worker has finished),            *)
(* threadDone (the loop test asks the THREAD-side future of the producer:  *)
(* `queue.empty()` and `.done()` are then two looks at state that another  *)
(* thread changes in between - the seeded change C09_agent4).              *)
(***************************************************************************)
EXTENDS Naturals, Sequences, FiniteSets, TLC
CONSTANTS K, N, QCap, MaxFaults, Mutant
Loc == <<1, 2, 1, 3, 2>>
\* K chunks produced in order 1..K; Loc[k] = storage location (duplicates model identical chunks)
Workers == 1..N
VARIABLES q, produced, prod,      \* queue (Seq of chunk numbers), #chunks put, producer pc: "run" | "returned"
          loopDone,               \* loop-side view of the producer future (flips only between coroutine steps)
          abort, w,               \* abort flag; w[i] = [pc, k]
          free, inflight, stored, done, gather, committed, faults
vars == <<q, produced, prod, loopDone, abort, w, free, inflight, stored, done, gather, committed, faults>>
Init == /\ q = <<>> /\ produced = 0 /\ prod = "run" /\ loopDone = FALSE /\ abort = FALSE
        /\ w = [i \in Workers |-> [pc |-> "test", k |-> 0]]
        /\ free = N /\ inflight = 0 /\ stored = {} /\ done = {} /\ gather = "wait" /\ committed = FALSE /\ faults = 0
\* ---- producer thread
Put == /\ prod = "run" /\ ~abort /\ produced < K /\ Len(q) < QCap
       /\ q' = Append(q, produced + 1) /\ produced' = produced + 1
       /\ UNCHANGED <<prod, loopDone, abort, w, free, inflight, stored, done, gather, committed, faults>>
\* mutant abortUnseenWhenFull: the abort flag is only looked at before a chunk is produced, never while waiting for room in the queue
ProdReturn == /\ prod = "run" /\ (produced = K \/ (abort /\ (Mutant # "abortUnseenWhenFull" \/ Len(q) < QCap))) /\ prod' = "returned"
              /\ UNCHANGED <<q, produced, loopDone, abort, w, free, inflight, stored, done, gather, committed, faults>>
\* ---- event loop: the future's done-callback runs as its own loop step
LoopSeesDone == /\ prod = "returned" /\ ~loopDone /\ loopDone' = TRUE
                /\ UNCHANGED <<q, produced, prod, abort, w, free, inflight, stored, done, gather, committed, faults>>
\* ---- worker coroutines (each action = one run-to-next-await)
Set(i, pc, k) == w' = [w EXCEPT ![i] = [pc |-> pc, k |-> k]]
Test(i) == /\ w[i].pc = "test" /\ Mutant # "threadDone"
           /\ LET cont == IF Mutant = "doneOnly" THEN ~loopDone ELSE (q # <<>> \/ ~loopDone) IN
              IF ~cont THEN Set(i, "exit", 0) /\ q' = q
              ELSE IF q = <<>> THEN Set(i, "test", 0) /\ q' = q        \* sleep(timeout); loop
              ELSE Set(i, "wantSlotE", Head(q)) /\ q' = Tail(q)
           /\ UNCHANGED <<produced, prod, loopDone, abort, free, inflight, stored, done, gather, committed, faults>>
\* mutant threadDone: first look (queue), second look (thread-side state of the producer) - the producer runs in between
TestQ(i) == /\ w[i].pc = "test" /\ Mutant = "threadDone"
            /\ IF q = <<>> THEN Set(i, "test2", 0) /\ q' = q ELSE Set(i, "wantSlotE", Head(q)) /\ q' = Tail(q)
            /\ UNCHANGED <<produced, prod, loopDone, abort, free, inflight, stored, done, gather, committed, faults>>
TestP(i) == /\ w[i].pc = "test2" /\ Set(i, IF prod = "returned" THEN "exit" ELSE "test", 0)
            /\ UNCHANGED <<q, produced, prod, loopDone, abort, free, inflight, stored, done, gather, committed, faults>>
SlotE(i) == /\ w[i].pc = "wantSlotE" /\ free > 0 /\ free' = free - 1 /\ inflight' = inflight + 1 /\ Set(i, "exists", w[i].k)
            /\ UNCHANGED <<q, produced, prod, loopDone, abort, stored, done, gather, committed, faults>>
ExistsDone(i) == /\ w[i].pc = "exists" /\ free' = free + 1 /\ inflight' = inflight - 1
                 /\ IF Loc[w[i].k] \in stored THEN Set(i, "test", 0) /\ done' = done \cup {w[i].k}
                                             ELSE Set(i, "wantSlotU", w[i].k) /\ done' = done
                 /\ UNCHANGED <<q, produced, prod, loopDone, abort, stored, gather, committed, faults>>
SlotU(i) == /\ w[i].pc = "wantSlotU" /\ free > 0 /\ free' = free - 1 /\ inflight' = inflight + 1 /\ Set(i, "upload", w[i].k)
            /\ UNCHANGED <<q, produced, prod, loopDone, abort, stored, done, gather, committed, faults>>
UploadDone(i) == /\ w[i].pc = "upload" /\ free' = free + 1 /\ inflight' = inflight - 1
                 /\ stored' = stored \cup {Loc[w[i].k]} /\ done' = done \cup {w[i].k} /\ Set(i, "test", 0)
                 /\ UNCHANGED <<q, produced, prod, loopDone, abort, gather, committed, faults>>
UploadFail(i) == /\ w[i].pc = "upload" /\ faults < MaxFaults /\ faults' = faults + 1
                 /\ free' = free + 1 /\ inflight' = inflight - 1 /\ Set(i, "failed", w[i].k)
                 /\ UNCHANGED <<q, produced, prod, loopDone, abort, stored, done, gather, committed>>
\* ---- main coroutine: gather(workers) ; finally await producer ; commit
GatherOk == /\ gather = "wait"
            /\ IF Mutant = "firstCompleted" THEN \E i \in Workers : w[i].pc = "exit" ELSE \A i \in Workers : w[i].pc = "exit"
            /\ gather' = "awaitProd"
            /\ UNCHANGED <<q, produced, prod, loopDone, abort, w, free, inflight, stored, done, committed, faults>>
GatherRaise == /\ gather = "wait" /\ \E i \in Workers : w[i].pc = "failed" /\ gather' = "raising" /\ abort' = TRUE
               /\ UNCHANGED <<q, produced, prod, loopDone, w, free, inflight, stored, done, committed, faults>>
AwaitProd == /\ gather \in {"awaitProd", "raising"} /\ loopDone
             /\ gather' = IF gather = "raising" THEN "raised" ELSE "commit"
             /\ UNCHANGED <<q, produced, prod, loopDone, abort, w, free, inflight, stored, done, committed, faults>>
Commit == /\ gather = "commit" /\ free > 0 /\ committed' = TRUE /\ gather' = "finished"
          /\ UNCHANGED <<q, produced, prod, loopDone, abort, w, free, inflight, stored, done, faults>>
Next == Put \/ ProdReturn \/ LoopSeesDone \/ GatherOk \/ GatherRaise \/ AwaitProd \/ Commit
        \/ \E i \in Workers : Test(i) \/ TestQ(i) \/ TestP(i) \/ SlotE(i) \/ ExistsDone(i) \/ SlotU(i) \/ UploadDone(i) \/ UploadFail(i)
Spec == Init /\ [][Next]_vars /\ WF_vars(Next)
Fair == /\ WF_vars(Put) /\ WF_vars(ProdReturn) /\ WF_vars(LoopSeesDone) /\ WF_vars(GatherOk) /\ WF_vars(GatherRaise)
        /\ WF_vars(AwaitProd) /\ WF_vars(Commit)
        /\ \A i \in Workers : WF_vars(Test(i)) /\ WF_vars(TestQ(i)) /\ WF_vars(TestP(i)) /\ WF_vars(SlotE(i)) /\ WF_vars(ExistsDone(i) \/ UploadDone(i) \/ UploadFail(i)) /\ WF_vars(SlotU(i))
FairSpec == Init /\ [][Next]_vars /\ Fair
InFlightBound == inflight <= N /\ free + inflight = N
CommitComplete == committed => (done = 1..K /\ \A k \in 1..K : Loc[k] \in stored)      \* C03 / C09: nothing lost, nothing outstanding
NoCommitAfterFailure == (faults > 0 /\ \E i \in Workers : w[i].pc = "failed") => ~committed
Quiescent == \A i \in Workers : w[i].pc \in {"exit", "failed"}
SlotsRestored == Quiescent => free = N
Terminates == <>(gather \in {"finished", "raised"})
NoSpuriousError == gather = "raised" => faults > 0
=============================================================================
