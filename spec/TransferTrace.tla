----------------------------- MODULE TransferTrace -----------------------------
(***************************************************************************)
(* Outcomes of real adapter calls executed under fault scripts generated   *)
(* from Transfer.tla (position x kind x count).  One event per call.       *)
(*   P:ExactBytes     success => the destination holds exactly the payload *)
(*   P:Masked         faults within the (measured) retry budget => success *)
(*   P:BoundedError   faults that persist => an error after a bounded      *)
(*                    number of service calls                              *)
(*   P:NoPartial      whatever the outcome, the object visible at the      *)
(*                    service is the old one or the complete new one       *)
(*   C:predicted      the outcome Transfer.tla predicts for the script     *)
(***************************************************************************)
EXTENDS Naturals, Sequences, FiniteSets, TLC, TLCExt, Json, IOUtils

Traces == JsonDeserialize(IOEnv.TRACE_FILE)
VARIABLES tid, l, verdict, drift, reported
vars == <<tid, l, verdict, drift, reported>>
Tr == Traces[tid]
Ev == Tr.events
AttemptCap == 64

Clause(e) ==
  IF e.ok /\ ~e.exact THEN "P:ExactBytes"
  ELSE IF ~e.persistent /\ e.nfaults <= e.budget /\ ~e.ok THEN "P:Masked"
  ELSE IF e.persistent /\ (e.ok \/ e.calls > AttemptCap \/ e.runaway) THEN "P:BoundedError"
  ELSE IF ~e.nopartial THEN "P:NoPartial"
  ELSE "ok"
Conf(e) == IF ~e.persistent /\ e.predicted # "~" /\ (e.predicted = "ok") # e.ok THEN "C:predicted" ELSE "ok"

Init == tid \in 1..Len(Traces) /\ l = 1 /\ verdict = "ok" /\ drift = "ok" /\ reported = FALSE
Step == /\ ~reported /\ verdict = "ok" /\ l <= Len(Ev)
        /\ LET c == IF "waive" \in DOMAIN Ev[l] THEN "ok" ELSE Clause(Ev[l]) IN
           /\ verdict' = c /\ l' = IF c = "ok" THEN l + 1 ELSE l
           /\ drift' = IF drift = "ok" /\ Conf(Ev[l]) # "ok" THEN Conf(Ev[l]) ELSE drift
        /\ UNCHANGED <<tid, reported>>
Report == /\ ~reported /\ (verdict # "ok" \/ l > Len(Ev))
          /\ PrintT(<<"V", tid, l, verdict, drift>>) /\ reported' = TRUE /\ UNCHANGED <<tid, l, verdict, drift>>
Next == Step \/ Report
Spec == Init /\ [][Next]_vars
=============================================================================
