SPECIFICATION Spec
CONSTANTS
  Cids = {1, 2, 3}
  Sids = {1, 2}
  Encrypted = TRUE
  Mutants = {}
  MaxTampers = 2
INVARIANT NoSilentDamage
INVARIANT CompleteOrError
CHECK_DEADLOCK FALSE
