SPECIFICATION Spec
CONSTANTS
  Files = {1, 2, 3}
  Sizes = {0, 1, 5}
  Align = 4
  MaxCuts = 1
  MaxArgs = 2
  Dedupe = TRUE
  EmptyEntries = TRUE
  TruncateOnRestore = TRUE
  ClosedIntervals = TRUE
  EmitInstances = FALSE
INVARIANT RoundTripHolds
INVARIANT TilingHolds
INVARIANT Emit
CHECK_DEADLOCK FALSE
