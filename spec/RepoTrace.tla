----------------------------- MODULE RepoTrace -----------------------------
(***************************************************************************)
(* Trace specification for executions of the real replicat commands,       *)
(* recorded at the backend (every exists / upload / delete in the order    *)
(* the shared store applied them) and projected to abstract names by an    *)
(* independent codec.  The state is driven by the observed mutations; at   *)
(* every step TLC evaluates the property clauses (P:...) of C02 C03 C06    *)
(* C07 C08 C15 C18 on it and the conformance clauses (C:...) that say the  *)
(* implementation still behaves like Repo.tla.                             *)
(*                                                                         *)
(* One behaviour per trace, one state per event: validation is linear and  *)
(* total - every trace gets a verdict <<"V", tid, index, clause, drift>>.  *)
(***************************************************************************)
EXTENDS Naturals, Integers, Sequences, FiniteSets, TLC, TLCExt, Json, IOUtils, RepoProps

Traces == JsonDeserialize(IOEnv.TRACE_FILE)

VARIABLES tid, l, st, verdict, drift, reported
vars == <<tid, l, st, verdict, drift, reported>>

Rng(s) == {s[i] : i \in DOMAIN s}
Tr == Traces[tid]
Ev == Tr.events
FamOfU(u) == Tr.fam[u]
NP == Tr.np

\* immutable, content-addressed snapshot bodies as decoded by the independent reader
Body == [s \in 1..Len(Tr.snapdefs) |->
           [fam     |-> Tr.snapdefs[s].fam,
            readers |-> Rng(Tr.snapdefs[s].readers),
            table   |-> Rng(Tr.snapdefs[s].table),
            ts      |-> Tr.snapdefs[s].ts,
            files   |-> Rng(Tr.snapdefs[s].files)]]     \* set of <<path id, version id>>

\* absent: how many times this command was told "<<family, chunk>> is not stored" and has not uploaded it since; mine: what it uploaded itself
\* (C07: a command does not send a payload it has already sent, unless two of its workers were both told "absent")
Idle == [kind |-> "idle", u |-> "", D |-> {}, had |-> {}, refuse |-> FALSE, repeat |-> FALSE, absent |-> <<>>, mine |-> {}]
Tokens(o, x) == IF x \in DOMAIN o.absent THEN o.absent[x] ELSE 0
WithTokens(a, x, k) == [y \in DOMAIN a \cup {x} |-> IF y = x THEN k ELSE a[y]]

State0 == [chunks |-> {<<x[1], x[2]>> : x \in Rng(Tr.init.chunks)},
           bad    |-> {},
           snaps  |-> Rng(Tr.init.snaps),
           op     |-> [p \in 1..NP |-> Idle],
           snapped |-> {},                        \* <<family, set of <<path, version>>>> of snapshots taken and still fully stored
           dirty  |-> Rng(Tr.init.dirty)]         \* families that may hold orphans

Visible(s, u)  == {x \in s.snaps : Body[x].fam = FamOfU(u)}
Readable(s, u) == {x \in Visible(s, u) : u \in Body[x].readers}
AllIdle(s) == \A p \in 1..NP : s.op[p].kind = "idle"

(* ---- successor state ------------------------------------------------- *)
Apply(s, e) ==
  CASE e.a = "begin" ->
         [s EXCEPT !.op[e.p] = [kind |-> e.k, u |-> e.u, D |-> Rng(e.D),
                                had  |-> ChunksOfFam(s.chunks, FamOfU(e.u)),
                                refuse |-> e.k = "del" /\ (e.unknown \/ ~(Rng(e.D) \subseteq Readable(s, e.u))),
                                \* C07: the very same data was already snapshotted by a member of the family and nothing of it was removed since
                                repeat |-> e.k = "snap" /\ <<FamOfU(e.u), Rng(e.want)>> \in s.snapped,
                                absent |-> <<>>, mine |-> {}]]
    [] e.a = "exists" ->
         IF e.r \/ s.op[e.p].kind # "snap" THEN s
         ELSE [s EXCEPT !.op[e.p].absent = WithTokens(@, <<e.f, e.c>>, Tokens(s.op[e.p], <<e.f, e.c>>) + 1)]
    [] e.a = "putc" ->
         [s EXCEPT !.chunks = @ \cup {<<e.f, e.c>>},
                   !.bad = IF e.good THEN @ \ {<<e.f, e.c>>} ELSE @ \cup {<<e.f, e.c>>},
                   !.op[e.p].absent = IF Tokens(s.op[e.p], <<e.f, e.c>>) > 0
                                      THEN WithTokens(@, <<e.f, e.c>>, Tokens(s.op[e.p], <<e.f, e.c>>) - 1) ELSE @,
                   !.op[e.p].mine = @ \cup {<<e.f, e.c>>}]
    [] e.a = "delc" -> [s EXCEPT !.chunks = @ \ {<<e.f, e.c>>}, !.bad = @ \ {<<e.f, e.c>>}, !.snapped = {x \in @ : x[1] # e.f}]
    [] e.a = "puts" -> [s EXCEPT !.snaps = @ \cup {e.s}, !.snapped = @ \cup {<<Body[e.s].fam, Rng(e.want)>>}]
    [] e.a = "dels" -> [s EXCEPT !.snaps = @ \ {e.s}]
    [] e.a = "end"  ->
         LET o == s.op[e.p]  f == FamOfU(o.u) IN
         [s EXCEPT !.op[e.p] = Idle,
                   !.dirty = IF ~e.ok /\ o.kind \in {"snap", "del", "clean"} THEN @ \cup {f}
                             ELSE IF o.kind = "clean" THEN @ \ {f} ELSE @]
    [] e.a = "tamper" -> IF e.gone THEN [s EXCEPT !.snaps = @ \ {e.s}] ELSE s      \* C04: only the removal of a snapshot object changes what is listed
    [] e.a = "repair" -> IF e.gone THEN [s EXCEPT !.snaps = @ \cup {e.s}] ELSE s
    [] e.a = "crash" -> [s EXCEPT !.op[e.p] = Idle, !.dirty = @ \cup {FamOfU(s.op[e.p].u)}]
    [] OTHER -> s

(* ---- what restore and the listings must produce (C15, C06, C18) ------ *)
Newest(S) == CHOOSE x \in S : \A y \in S : Body[y].ts <= Body[x].ts
PathsOf(x) == {pv[1] : pv \in Body[x].files}
VersionIn(x, q) == CHOOSE pv \in Body[x].files : pv[1] = q
ExpectedTree(s, u, S, F) ==
    LET R == Readable(s, u) \cap S
        P == (UNION {PathsOf(x) : x \in R}) \cap F
    IN {VersionIn(Newest({x \in R : q \in PathsOf(x)}), q) : q \in P}

\* rows: <<sid, detailed>> in printed order
LsSidSet(rows) == {rows[i][1] : i \in DOMAIN rows}
NewestFirst(rows) == \A i, j \in DOMAIN rows :
                        (i < j /\ rows[i][2] /\ rows[j][2]) => Body[rows[i][1]].ts >= Body[rows[j][1]].ts
\* file rows: <<sid, path id>>
LfExpected(s, u, S, F) == UNION {{<<x, q>> : q \in PathsOf(x) \cap F} : x \in Readable(s, u) \cap S}
LfNewestFirst(rows) == \A i, j \in DOMAIN rows : i < j => Body[rows[i][1]].ts >= Body[rows[j][1]].ts

(* ---- property clauses: first failing one, or "ok" -------------------- *)
\* only the clauses listed in the trace header are evaluated (each check claims its own property)
\* an event may carry a waiver for clauses recorded as known findings, so that the rest of its trace is examined
Waived(e) == IF "waive" \in DOMAIN e THEN Rng(e.waive) ELSE {}

Clause(s, e) ==
  LET n == Apply(s, e)
      On(c) == c \in Rng(Tr.check) /\ c \notin Waived(e) IN
  CASE e.a = "putc" ->
         LET o == s.op[e.p] IN
         IF On("P:GcWritesNothing") /\ (o.kind \in {"del", "clean"}) THEN "P:GcWritesNothing"
         \* no payload for a chunk the family held when the command began, nor for one this command has already sent itself - unless it was
         \* told "absent" once per upload (two of its workers racing on the same new chunk are legitimate, blind re-uploads are not).
         \* A chunk that ANOTHER client stored in the meantime is not held against the command (inherent race, however existence is learned).
         ELSE IF On("P:UploadOnlyIfAbsent") /\ (o.kind = "snap" /\ e.f = FamOfU(o.u)
                    /\ (e.c \in o.had \/ (<<e.f, e.c>> \in o.mine /\ <<e.f, e.c>> \in s.chunks /\ Tokens(o, <<e.f, e.c>>) = 0))) THEN "P:UploadOnlyIfAbsent"
         ELSE IF On("P:RepeatTransfersNothing") /\ (o.kind = "snap" /\ o.repeat) THEN "P:RepeatTransfersNothing"
         ELSE IF On("P:NoAlias") /\ (o.kind = "snap" /\ e.f # FamOfU(o.u)) THEN "P:NoAlias"
         ELSE IF On("P:Safety") /\ (~SafetyOf(n.chunks, n.bad, n.snaps, Body)) THEN "P:Safety"
         ELSE "ok"
    [] e.a = "puts" ->
         IF On("P:CommitComplete") /\ (~SafetyOf(n.chunks, n.bad, n.snaps, Body)) THEN "P:CommitComplete"
         ELSE IF On("P:SnapshotWellFormed") /\ (~e.wellformed) THEN "P:SnapshotWellFormed"
         \* C06: the private part of a snapshot decrypts only under the key of the user who took it (keys as intended by the key graph:
         \* a shared or cloned key is another key, even with the same password)
         ELSE IF On("P:PrivatePartOnlyForItsOwner") /\ ~(Rng(e.decoders) \subseteq Rng(e.intended)) THEN "P:PrivatePartOnlyForItsOwner"
         ELSE IF On("P:SnapshotFaithful") /\ (Body[e.s].files # Rng(e.want)) THEN "P:SnapshotFaithful"
         ELSE "ok"
    [] e.a = "delc" ->
         LET o == s.op[e.p] IN
         IF On("P:ConfinedCommand") /\ (o.kind \notin {"del", "clean"} \/ o.refuse) THEN "P:ConfinedCommand"
         ELSE IF On("P:ConfinedFamily") /\ (e.f # FamOfU(o.u)) THEN "P:ConfinedFamily"
         ELSE IF On("P:Safety") /\ (~SafetyOf(n.chunks, n.bad, n.snaps, Body)) THEN "P:Safety"
         ELSE "ok"
    [] e.a = "dels" ->
         LET o == s.op[e.p] IN
         IF On("P:ConfinedCommand") /\ (o.kind # "del" \/ o.refuse) THEN "P:ConfinedCommand"
         ELSE IF On("P:ConfinedNamed") /\ (e.s \notin o.D) THEN "P:ConfinedNamed"
         ELSE IF On("P:ConfinedReadable") /\ (~(o.u \in Body[e.s].readers /\ Body[e.s].fam = FamOfU(o.u))) THEN "P:ConfinedReadable"
         ELSE "ok"
    [] e.a \in {"puto", "delo"} -> IF On("P:OthersUntouched") THEN "P:OthersUntouched" ELSE "ok"
    [] e.a = "end" ->
         LET o == s.op[e.p]  f == FamOfU(o.u) IN
         IF On("P:Terminates") /\ e.hung THEN "P:Terminates"          \* C03 / C09: a command ends - with a result or with an error - whatever fails
         ELSE IF On("P:DeleteRefused") /\ (o.kind = "del" /\ o.refuse /\ e.ok) THEN "P:DeleteRefused"
         ELSE IF On("P:CommandSucceeds") /\ (~e.ok /\ ~e.fault /\ ~(o.kind = "del" /\ o.refuse)) THEN "P:CommandSucceeds"
         ELSE IF On("P:DeleteAccepted") /\ (o.kind = "del" /\ ~o.refuse /\ ~e.ok /\ ~e.fault) THEN "P:DeleteAccepted"
         ELSE IF On("P:CleanExact") /\ (o.kind = "clean" /\ e.ok /\ ~CleanExactOf(n.chunks, n.snaps, Body, f)) THEN "P:CleanExact"
         ELSE IF On("P:DeleteComplete") /\ (o.kind = "del" /\ e.ok /\ ~o.refuse /\ ~DeleteCompleteOf(n.chunks, n.snaps, Body, f, o.D)) THEN "P:DeleteComplete"
         ELSE IF On("P:DeleteComplete") /\ (o.kind = "del" /\ e.ok /\ ~o.refuse /\ (o.D \cap n.snaps # {})) THEN "P:DeleteComplete"
         ELSE IF On("P:DedupExact") /\ e.ok /\ o.kind \in {"snap", "del", "clean"} /\ AllIdle(n) /\ f \notin n.dirty
                 /\ ~DedupExactOf(n.chunks, n.snaps, Body, f) THEN "P:DedupExact"
         ELSE "ok"
    [] e.a = "unlock" ->      \* C06: a (password, key file) pair unlocks iff the password is the key's own
         \* (events with a field "imp" try a password that is close to, but not, the key's own: they must all fail)
         IF On("P:UnlockOwnPasswordOnly") /\ (IF "imp" \in DOMAIN e THEN e.ok ELSE e.ok # (Tr.pw[e.pw] = Tr.pw[e.key])) THEN "P:UnlockOwnPasswordOnly" ELSE "ok"
    [] e.a = "keyrel" ->      \* C06: what add-key was ASKED for is what the new key is (clone and shared: the family of the key it was made
                              \* from, i.e. the same shared secrets; independent: another family) - judged from the key files by the independent codec
         IF On("P:AddKeyRelation") /\ (IF e.kind \in {"clone", "shared"} THEN ~e.samefam ELSE e.samefam) THEN "P:AddKeyRelation" ELSE "ok"
    [] e.a = "restore" ->
         IF ~e.ok THEN (IF e.fault \/ ~On("P:RestoreOk") THEN "ok" ELSE "P:RestoreOk")
         ELSE IF On("P:RestoreSelect") /\ (Rng(e.tree) # ExpectedTree(s, e.u, Rng(e.S), Rng(e.F))) THEN "P:RestoreSelect"
         ELSE IF On("P:RestoreNothingElse") /\ (e.extra) THEN "P:RestoreNothingElse"
         ELSE "ok"
    [] e.a = "ls" ->
         IF On("P:ListOk") /\ (~e.ok) THEN "P:ListOk"
         ELSE IF On("P:ListSnapshotsSet") /\ (LsSidSet(e.rows) # Visible(s, e.u) \cap Rng(e.S)) THEN "P:ListSnapshotsSet"
         ELSE IF On("P:ListSnapshotsDetail") /\ (\E i \in DOMAIN e.rows : e.rows[i][2] # (e.rows[i][1] \in Readable(s, e.u))) THEN "P:ListSnapshotsDetail"
         ELSE IF On("P:ListNewestFirst") /\ (~NewestFirst(e.rows)) THEN "P:ListNewestFirst"
         ELSE IF On("P:ListOnce") /\ (Len(e.rows) # Cardinality(LsSidSet(e.rows))) THEN "P:ListOnce"
         ELSE IF On("P:ListTrueValues") /\ (~e.cells) THEN "P:ListTrueValues"
         ELSE "ok"
    [] e.a = "lf" ->
         IF On("P:ListOk") /\ (~e.ok) THEN "P:ListOk"
         ELSE IF On("P:ListFilesSet") /\ (Rng(e.rows) # LfExpected(s, e.u, Rng(e.S), Rng(e.F))) THEN "P:ListFilesSet"
         ELSE IF On("P:ListOnce") /\ (Len(e.rows) # Cardinality(Rng(e.rows))) THEN "P:ListOnce"
         ELSE IF On("P:ListNewestFirst") /\ (~LfNewestFirst(e.rows)) THEN "P:ListNewestFirst"
         ELSE IF On("P:ListTrueValues") /\ (~e.cells) THEN "P:ListTrueValues"
         ELSE "ok"
    [] OTHER -> "ok"

(* ---- conformance clauses (DRIFT, never a violation) ------------------ *)
Conf(s, e) ==
  CASE e.a = "begin"  -> IF s.op[e.p].kind # "idle" THEN "C:begin-while-busy" ELSE "ok"
    [] e.a = "exists" -> IF e.r # (<<e.f, e.c>> \in s.chunks) THEN "C:exists-result" ELSE "ok"
    [] e.a = "puts"   -> LET o == s.op[e.p] IN
                         IF o.kind # "snap" THEN "C:commit-outside-snapshot"
                         ELSE IF ~(Body[e.s].fam = FamOfU(o.u) /\ o.u \in Body[e.s].readers) THEN "C:snapshot-owner"
                         ELSE "ok"
    [] e.a = "end"    -> LET o == s.op[e.p] IN
                         IF ~e.ok /\ ~e.fault /\ ~(o.kind = "del" /\ o.refuse) THEN "C:command-failed"
                         ELSE "ok"
    [] OTHER -> "ok"

(* ---- behaviour -------------------------------------------------------- *)
Init == /\ tid \in 1..Len(Traces) /\ l = 1 /\ st = State0
        /\ verdict = "ok" /\ drift = "ok" /\ reported = FALSE

Step == /\ ~reported /\ verdict = "ok" /\ l <= Len(Ev)
        /\ LET e == Ev[l]  c == Clause(st, e)  d == Conf(st, e) IN
           /\ verdict' = c
           /\ drift' = IF drift = "ok" /\ d # "ok" THEN d \o "@" \o ToString(l) ELSE drift
           /\ st' = IF c = "ok" THEN Apply(st, e) ELSE st
           /\ l' = IF c = "ok" THEN l + 1 ELSE l
        /\ UNCHANGED <<tid, reported>>

Report == /\ ~reported /\ (verdict # "ok" \/ l > Len(Ev))
          /\ PrintT(<<"V", tid, l, verdict, drift>>)
          /\ reported' = TRUE
          /\ UNCHANGED <<tid, l, st, verdict, drift>>

Next == Step \/ Report
Spec == Init /\ [][Next]_vars
=============================================================================
