SPECIFICATION FairSpec
CONSTANTS
  N = 1
  Chunks = {1, 2, 3}
  Files = {1, 2}
  RefsSel = "two-files"
  MaxFaults = 1
  TestInsideLock = TRUE
INVARIANT InFlightBound
INVARIANT NoSpuriousError
INVARIANT SlotsRestored
INVARIANT FinalisedOnceAfterWrites
INVARIANT AllFinalised
PROPERTY Terminates
CHECK_DEADLOCK FALSE
