------------------------------- MODULE Tamper -------------------------------
(***************************************************************************)
(* C04 - damaged or substituted repository objects are never restored      *)
(* silently.  Abstract objects carry what the checks of restore look at:   *)
(*   chunk object    [content, bound, intact]                              *)
(*       content = the plaintext identity it would decrypt / read to       *)
(*       bound   = the digest its ciphertext key was derived from          *)
(*       intact  = AEAD tag still verifies (always TRUE when unencrypted   *)
(*                 is irrelevant: plain objects have no tag)               *)
(*   snapshot object [sid, intact] stored under Name(sid)                  *)
(* An adversary flips / truncates / extends (Damage), swaps, replays and   *)
(* deletes objects. Restore of snapshot s: load the snapshot object under  *)
(* Name(s) (hash-vs-name check), then for every chunk of its table:        *)
(* download, authenticate (encrypted), hash check, write.                  *)
(*                                                                         *)
(* Invariant: result = "ok" => every byte written is the captured one.     *)
(* Mutants show which mechanism stops which tamper:                        *)
(*   NoChunkHashCheck    - violated in plain repositories (Damage, Swap)   *)
(*   NoSnapshotHashCheck - violated by swapping two snapshot objects       *)
(*   KeyNotBound + NoChunkHashCheck - violated in encrypted repositories   *)
(*   KeyNotBound alone   - holds (the hash check still stands)             *)
(***************************************************************************)
EXTENDS Naturals, FiniteSets, TLC

CONSTANTS Cids, Sids, Encrypted, Mutants, MaxTampers
\* Table[s] : the chunks snapshot s needs (fixed, two overlapping snapshots)
Table(s) == IF s = 1 THEN {1, 2} ELSE {2, 3}

VARIABLES chunk,     \* location (= cid it is named after) -> object or "absent"
          snap,      \* location (= sid it is named after) -> [sid, intact] or "absent"
          ntamper, phase, target, todo, written, result
vars == <<chunk, snap, ntamper, phase, target, todo, written, result>>

Garbage == 0
AbsentC == [present |-> FALSE, content |-> 0, bound |-> 0, intact |-> FALSE]
AbsentS == [present |-> FALSE, sid |-> 0, intact |-> FALSE]
Has(m) == m \in Mutants

Init == /\ chunk = [c \in Cids |-> [present |-> TRUE, content |-> c, bound |-> c, intact |-> TRUE]]
        /\ snap = [s \in Sids |-> [present |-> TRUE, sid |-> s, intact |-> TRUE]]
        /\ ntamper = 0 /\ phase = "tamper" /\ target = 0 /\ todo = {} /\ written = {} /\ result = "none"

(* ---- the adversary ---------------------------------------------------- *)
T(step) == phase = "tamper" /\ ntamper < MaxTampers /\ ntamper' = ntamper + 1 /\ step
           /\ UNCHANGED <<phase, target, todo, written, result>>
DamageChunk(c) == T(chunk[c].present /\ chunk' = [chunk EXCEPT ![c] = [present |-> TRUE, content |-> Garbage, bound |-> @.bound, intact |-> FALSE]] /\ UNCHANGED snap)
SwapChunks(a, b) == T(a # b /\ chunk' = [chunk EXCEPT ![a] = chunk[b], ![b] = chunk[a]] /\ UNCHANGED snap)
ReplayChunk(a, b) == T(a # b /\ chunk' = [chunk EXCEPT ![b] = chunk[a]] /\ UNCHANGED snap)
DeleteChunk(c) == T(chunk' = [chunk EXCEPT ![c] = AbsentC] /\ UNCHANGED snap)
DamageSnap(s) == T(snap[s].present /\ snap' = [snap EXCEPT ![s] = [present |-> TRUE, sid |-> @.sid, intact |-> FALSE]] /\ UNCHANGED chunk)
SwapSnaps(a, b) == T(a # b /\ snap' = [snap EXCEPT ![a] = snap[b], ![b] = snap[a]] /\ UNCHANGED chunk)
ReplaySnap(a, b) == T(a # b /\ snap' = [snap EXCEPT ![b] = snap[a]] /\ UNCHANGED chunk)
DeleteSnap(s) == T(snap' = [snap EXCEPT ![s] = AbsentS] /\ UNCHANGED chunk)

\* NB: with the snapshot hash check removed a damaged plain-text body is parsed as it is: anything may be written
(* ---- restore -S ^Name(s)$ -------------------------------------------- *)
\* loading: list, download, hash(contents) = name ?, decrypt
Load(s) == /\ phase = "tamper" /\ target' = s
           /\ IF ~snap[s].present THEN phase' = "done" /\ result' = "ok" /\ todo' = {}            \* nothing listed: nothing written
              ELSE IF ~snap[s].intact /\ (Encrypted \/ ~Has("NoSnapshotHashCheck"))
                   THEN phase' = "done" /\ result' = "error" /\ todo' = {}       \* bytes no longer hash to the name / AEAD of the body fails
              ELSE IF ~snap[s].intact THEN phase' = "chunks" /\ result' = "none" /\ todo' = {<<Garbage, c>> : c \in Cids}  \* a damaged plain body is believed
              ELSE IF snap[s].sid # s /\ ~Has("NoSnapshotHashCheck") THEN phase' = "done" /\ result' = "error" /\ todo' = {}
              ELSE phase' = "chunks" /\ result' = "none" /\ todo' = {<<c, c>> : c \in Table(snap[s].sid)}   \* <<wanted cid, location>>
           /\ UNCHANGED <<chunk, snap, ntamper, written>>

Fetch(w) == /\ phase = "chunks" /\ w \in todo
            /\ LET c == w[1]  o == chunk[w[2]] IN
               IF ~o.present THEN phase' = "done" /\ result' = "error" /\ UNCHANGED <<todo, written>>
               ELSE IF Encrypted /\ ~(o.intact /\ (o.bound = c \/ Has("KeyNotBound"))) THEN phase' = "done" /\ result' = "error" /\ UNCHANGED <<todo, written>>
               ELSE IF o.content # c /\ ~Has("NoChunkHashCheck") THEN phase' = "done" /\ result' = "error" /\ UNCHANGED <<todo, written>>
               ELSE /\ written' = written \cup {<<c, o.content>>} /\ todo' = todo \ {w}
                    /\ phase' = IF todo = {w} THEN "done" ELSE "chunks"
                    /\ result' = IF todo = {w} THEN "ok" ELSE "none"
            /\ UNCHANGED <<chunk, snap, ntamper, target>>

Next == \/ \E c \in Cids : DamageChunk(c) \/ DeleteChunk(c)
        \/ \E a, b \in Cids : SwapChunks(a, b) \/ ReplayChunk(a, b)
        \/ \E s \in Sids : DamageSnap(s) \/ DeleteSnap(s) \/ Load(s)
        \/ \E a, b \in Sids : SwapSnaps(a, b) \/ ReplaySnap(a, b)
        \/ \E w \in todo : Fetch(w)
Spec == Init /\ [][Next]_vars

\* C04: success implies that everything written is what was captured for the requested snapshot
NoSilentDamage == result = "ok" =>
                     /\ \A w \in written : w[1] = w[2]
                     /\ \A w \in written : w[1] \in Table(target)
\* ... and (unless the snapshot object is gone) that everything was written
CompleteOrError == (result = "ok" /\ snap[target].present) => {w[1] : w \in written} = Table(target)
=============================================================================
