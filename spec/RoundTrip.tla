------------------------------ MODULE RoundTrip ------------------------------
(***************************************************************************)
(* C01 - backup round trip is the identity on file trees; tiling clause of *)
(* C14.  Pure functions of replicat/repository.py over symbolic bytes:     *)
(*                                                                         *)
(*   Reached(args)     flatten + resolve the path arguments                *)
(*   StreamList        files ordered by (size, path)                       *)
(*   StartOf / EndOf   stream layout with padding to Align                 *)
(*   Touches / RefsOf  _chunk_done: every file whose closed interval meets *)
(*                     the chunk's closed interval gets the range it covers*)
(*   Planned           restore: refs sorted by counter, cumulative offsets *)
(*   Restored          _write_file_part on whatever existed at the target  *)
(*                                                                         *)
(* Theorem (INVARIANT RoundTripHolds): for every size assignment, argument *)
(* list, pre-existing target state and EVERY tiling of the stream into     *)
(* chunks, Restored(f) = the bytes of f for every reached f, and no other  *)
(* file gets an entry.                                                     *)
(*                                                                         *)
(* Switches (TRUE = intended behaviour, FALSE = a way the code could be    *)
(* wrong; each FALSE must make TLC fail - they are the spec mutants):      *)
(*   Dedupe            a file reached twice is streamed once               *)
(*   EmptyEntries      files that touch no chunk still get an entry        *)
(*   TruncateOnRestore a longer pre-existing target file is cut to size    *)
(*   ClosedIntervals   attribution uses closed intervals (zero-length      *)
(*                     touches give empty files their entry)               *)
(***************************************************************************)
EXTENDS Naturals, Integers, Sequences, FiniteSets, TLC, SequencesExt, FiniteSetsExt

CONSTANTS Files,        \* file ids 1..n; the id is the rank of the path under str() ordering
          Sizes, Align, MaxCuts, MaxArgs,
          Dedupe, EmptyEntries, TruncateOnRestore, ClosedIntervals, EmitInstances

Dir == 0     \* a path argument: the directory "tree" that holds every file except those of InDir2
Dir2 == 100  \* a path argument: the sibling directory "tree-2" (its path has Dir's path as a string prefix, not as a parent)
InDir2 == {1}  \* "tree-2/..." sorts before "tree/...": the file of lowest rank lives in the sibling directory

VARIABLES stage, size, args, cuts, pre
vars == <<stage, size, args, cuts, pre>>

ArgFiles(a) == IF a = Dir THEN Files \ InDir2 ELSE IF a = Dir2 THEN InDir2 ELSE {a}
Wanted == UNION {ArgFiles(args[i]) : i \in 1..Len(args)}                   \* Reached(args) as a set
\* the flat list as the code builds it: one entry per (argument, file) pair
RECURSIVE FlatFrom(_)
FlatFrom(i) == IF i > Len(args) THEN <<>>
               ELSE SetToSeq(ArgFiles(args[i])) \o FlatFrom(i + 1)
Less(a, b) == size[a] < size[b] \/ (size[a] = size[b] /\ a < b)            \* files.sort(key=(st_size, str(path)))
StreamList == IF Dedupe THEN SetToSortSeq(Wanted, Less)
              ELSE SortSeq(FlatFrom(1), LAMBDA a, b : Less(a, b))
Pad(n) == (Align - (n % Align)) % Align
RECURSIVE StartOf(_)
StartOf(i) == IF i = 1 THEN 0 ELSE StartOf(i - 1) + size[StreamList[i - 1]] + Pad(size[StreamList[i - 1]])
N == Len(StreamList)
EndOf(i) == StartOf(i) + size[StreamList[i]]
Total == IF N = 0 THEN 0 ELSE EndOf(N)
Sym(q) == LET occ == {i \in 1..N : StartOf(i) <= q /\ q < EndOf(i)} IN
          IF occ = {} THEN <<"pad">> ELSE LET i == CHOOSE x \in occ : TRUE IN <<StreamList[i], q - StartOf(i)>>
\* chunk j = [B[j], B[j+1]) with counter j
Bounds == IF Total = 0 THEN <<>> ELSE SetToSortSeq(cuts \cup {0, Total}, <)
NChunks == IF Total = 0 THEN 0 ELSE Len(Bounds) - 1
Max2(a, b) == IF a > b THEN a ELSE b
Min2(a, b) == IF a < b THEN a ELSE b
\* _chunk_done: bisect on start < chunk_end + 1, loop backwards, break on file.stream_end < chunk.stream_start
Touches(i, j) == IF ClosedIntervals THEN StartOf(i) <= Bounds[j + 1] /\ ~(EndOf(i) < Bounds[j])
                 ELSE StartOf(i) < Bounds[j + 1] /\ EndOf(i) > Bounds[j]
RefsOf(f) == LET pairs == {<<j, i>> \in (1..NChunks) \X (1..N) : StreamList[i] = f /\ Touches(i, j)} IN
             SetToSortSeq(pairs, LAMBDA a, b : a[1] < b[1] \/ (a[1] = b[1] /\ a[2] > b[2]))
HasEntry(f) == RefsOf(f) # <<>> \/ (EmptyEntries /\ \E i \in 1..N : StreamList[i] = f)
Segment(r) == LET j == r[1]  i == r[2]
                  lo == Max2(StartOf(i) - Bounds[j], 0) + Bounds[j]
                  hi == Min2(EndOf(i), Bounds[j + 1]) IN
              [k \in 1..(hi - lo) |-> Sym(lo + k - 1)]
RECURSIVE Concat(_)
Concat(rs) == IF rs = <<>> THEN <<>> ELSE Segment(Head(rs)) \o Concat(Tail(rs))
Planned(f) == Concat(RefsOf(f))
PreLen(f) == CASE pre[f] = "absent" -> 0 [] pre[f] = "shorter" -> Max2(size[f] - 1, 0)
               [] pre[f] \in {"same", "twin"} -> size[f] [] pre[f] = "longer" -> size[f] + 2
\* "twin": other bytes of the same length whose modification time equals the recorded one (a damaged copy made with cp -p / rsync -t):
\* size and time say nothing about content
Restored(f) == LET w == Planned(f) IN
               IF TruncateOnRestore \/ PreLen(f) <= Len(w) THEN w
               ELSE w \o [k \in 1..(PreLen(f) - Len(w)) |-> <<"old">>]

RoundTripHolds == stage = "done" =>
                    /\ \A f \in Wanted : HasEntry(f) /\ Restored(f) = [k \in 1..size[f] |-> <<f, k - 1>>]
                    /\ \A f \in Files \ Wanted : ~HasEntry(f)
\* C14: the ranges recorded for a file, in counter order, lie inside their chunk and add up to the file size
TilingHolds == stage = "done" =>
                 \A f \in Wanted : /\ Len(Planned(f)) = size[f]
                                   /\ \A k \in 1..Len(RefsOf(f)) :
                                        LET r == RefsOf(f)[k] IN Bounds[r[1]] <= Bounds[r[1] + 1]

Init == stage = "sizes" /\ size = [f \in Files |-> 0] /\ args = <<>> /\ cuts = {} /\ pre = [f \in Files |-> "absent"]
PickSizes == stage = "sizes" /\ \E s \in [Files -> Sizes] : size' = s /\ stage' = "args" /\ UNCHANGED <<args, cuts, pre>>
PickArgs == stage = "args" /\ \E n \in 1..MaxArgs : \E a \in [1..n -> Files \cup {Dir, Dir2}] : args' = a /\ stage' = "pre" /\ UNCHANGED <<size, cuts, pre>>
PickPre == stage = "pre" /\ \E p \in [Files -> {"absent", "shorter", "same", "twin", "longer"}] :
              /\ \A f \in Files : (f \notin Wanted => p[f] = "absent") /\ (p[f] \in {"shorter", "twin"} => size[f] > 0)
              /\ pre' = p /\ stage' = "cuts" /\ UNCHANGED <<size, args, cuts>>
CutSets == IF Total <= 1 THEN {{}} ELSE {c \in SUBSET (1..(Total - 1)) : Cardinality(c) <= MaxCuts}
PickCuts == stage = "cuts" /\ \E c \in CutSets : cuts' = c /\ stage' = "done" /\ UNCHANGED <<size, args, pre>>
Next == PickSizes \/ PickArgs \/ PickPre \/ PickCuts
Spec == Init /\ [][Next]_vars

\* instance generator for the replay into the real code: one line per (sizes, arguments, pre-existing state)
Emit == (EmitInstances /\ stage = "cuts") => PrintT(<<"I", size, args, pre>>)
\* ... and one line per tiling: sizes, stream order, cut positions (for the independent writer of C14)
EmitTilings == (EmitInstances /\ stage = "done") => PrintT(<<"J", size, StreamList, cuts>>)
=============================================================================
