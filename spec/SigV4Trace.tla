------------------------------ MODULE SigV4Trace ------------------------------
(***************************************************************************)
(* C16 - every request sent to an S3 service is correctly signed.          *)
(* One event per HTTP request captured at the transport (raw request       *)
(* target, headers, body).  Structural clauses are decided here on byte    *)
(* sequences; the HMAC chain itself is recomputed from the wire bytes by   *)
(* the independent verifier rv/sigv4.py, which contributes sigOk.          *)
(*                                                                         *)
(*   PctEncode  RFC 3986 encoding as SigV4 prescribes it: A-Z a-z 0-9 - _  *)
(*              . ~ stay, '/' stays in the path only, everything else %XX  *)
(*              with upper-case hex, encoded exactly once                  *)
(***************************************************************************)
EXTENDS Naturals, Sequences, FiniteSets, TLC, TLCExt, Json, IOUtils, SequencesExt

Traces == JsonDeserialize(IOEnv.TRACE_FILE)
VARIABLES tid, l, verdict, reported
vars == <<tid, l, verdict, reported>>
Tr == Traces[tid]
Ev == Tr.events
Rng(s) == {s[i] : i \in DOMAIN s}

Unreserved(b) == b \in (48..57) \cup (65..90) \cup (97..122) \cup {45, 95, 46, 126}
HexDigit(n) == IF n < 10 THEN 48 + n ELSE 55 + n
EncByte(b, keepSlash) == IF Unreserved(b) \/ (keepSlash /\ b = 47) THEN <<b>> ELSE <<37, HexDigit(b \div 16), HexDigit(b % 16)>>
PctEncode(s, keepSlash) == FlattenSeq([i \in DOMAIN s |-> EncByte(s[i], keepSlash)])

\* canonical query: pairs sorted by encoded name (then value), name=value joined by &
PairEnc(p) == PctEncode(p[1], FALSE) \o <<61>> \o PctEncode(p[2], FALSE)
RECURSIVE SeqLess(_, _)
SeqLess(a, b) == IF a = <<>> THEN b # <<>> ELSE IF b = <<>> THEN FALSE
                 ELSE IF a[1] # b[1] THEN a[1] < b[1] ELSE SeqLess(Tail(a), Tail(b))
RECURSIVE JoinAmp(_)
JoinAmp(ps) == IF ps = <<>> THEN <<>> ELSE IF Len(ps) = 1 THEN ps[1] ELSE ps[1] \o <<38>> \o JoinAmp(Tail(ps))
CanonicalQuery(pairs) == JoinAmp(SortSeq([i \in DOMAIN pairs |-> PairEnc(pairs[i])], SeqLess))

Clause(e) ==
  IF ~e.sigOk THEN "P:SignatureVerifies"
  ELSE IF e.wirePath # PctEncode(e.intendedPath, TRUE) THEN "P:PathEncodedOnce"
  ELSE IF e.wireQuery # CanonicalQuery(e.pairs) THEN "P:QueryCanonical"
  ELSE IF ~e.intended THEN "P:QueryCarriesIntendedValues"
  ELSE IF ~({"host", "x-amz-content-sha256", "x-amz-date"} \subseteq Rng(e.signed)) THEN "P:SignedHeaders"
  ELSE IF e.declaredHash # e.bodyHash THEN "P:DeclaredPayloadHash"
  ELSE IF e.declaredLen >= 0 /\ e.declaredLen # e.bodyLen THEN "P:DeclaredLength"
  ELSE IF ~e.scopeDateOk THEN "P:ScopeDate"
  ELSE "ok"

Init == tid \in 1..Len(Traces) /\ l = 1 /\ verdict = "ok" /\ reported = FALSE
Step == /\ ~reported /\ verdict = "ok" /\ l <= Len(Ev)
        /\ LET c == IF "waive" \in DOMAIN Ev[l] THEN "ok" ELSE Clause(Ev[l]) IN verdict' = c /\ l' = IF c = "ok" THEN l + 1 ELSE l
        /\ UNCHANGED <<tid, reported>>
Report == /\ ~reported /\ (verdict # "ok" \/ l > Len(Ev))
          /\ PrintT(<<"V", tid, l, verdict, "ok">>) /\ reported' = TRUE /\ UNCHANGED <<tid, l, verdict>>
Next == Step \/ Report
Spec == Init /\ [][Next]_vars
=============================================================================
