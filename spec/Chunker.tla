------------------------------- MODULE Chunker -------------------------------
(***************************************************************************)
(* C10 / deterministic half of C11 - the streaming chunker.                *)
(*                                                                         *)
(* replicat/utils/adapters.py gclmulchunker.__call__ is a small state      *)
(* machine (carry-over buffer, one piece of look-ahead, finality flag)     *)
(* around the cut function src/adapters.cpp next_cut:                      *)
(*   final and size < 2*MaxL : size <= MaxL -> size ; size < MaxL+Min ->      *)
(*                            size/2 ; else MaxL               (tail rule)  *)
(*   not final and size < MaxL : 0                              (wait rule) *)
(*   otherwise: first strict arg-max of the window hash over the aligned   *)
(*   candidates 4, 8, .. < MaxL ; below Min -> Min rounded up to 4 (forced) *)
(*                                                                         *)
(* The window hash is ABSTRACT: key(i) reads the 8 bytes around offset i,  *)
(* i.e. two adjacent 4-byte words; H is a table Word x Word -> 0..HMax     *)
(* selected by the constant HSel (ties, zero rows and a constant table     *)
(* included, so that every branch of the scan is exercised).               *)
(*                                                                         *)
(* Checked for every stream of words over a 2-letter alphabet (+ 0..3      *)
(* trailing bytes) up to MaxWords, every segmentation into <= MaxPieces    *)
(* pieces (empty pieces included) and every Min with an aligned length in  *)
(* [Min, MaxL]:  Lossless, NonEmpty, Bounds outside the tail zone,          *)
(* SegmentationIndependent outside the tail zone, SuffixLocal.             *)
(***************************************************************************)
EXTENDS Naturals, Integers, Sequences, FiniteSets, TLC, SequencesExt

CONSTANTS MaxL, Mins, MaxWords, MaxPieces, HSel, Mutant

Words == {0, 1}
H(a, b) == CASE HSel = "mix"   -> (2 * a + 3 * b + a * b) % 4         \* 0,3,2,2 : ties and a zero
              [] HSel = "zero"  -> 0                                    \* all candidates hash to 0: max_index stays 0
              [] HSel = "right" -> b                                    \* depends on the right word only
              [] HSel = "left"  -> 3 - 3 * a
              [] OTHER -> (a + b) % 2

VARIABLES W, tail, min,      \* the stream: words, trailing bytes; the minimum length
          seg,               \* piece lengths in bytes (sum = total)
          k,                 \* pieces appended to the buffer so far
          pos, avail,        \* buffer = stream[pos .. pos+avail)
          out,               \* chunk lengths produced, in order
          pc                 \* "append" | "cut" | "done"
vars == <<W, tail, min, seg, k, pos, avail, out, pc>>

Total == 4 * Len(W) + tail
RoundUp4(n) == ((n + 3) \div 4) * 4
Final == k = Len(seg)                          \* next_chunk is None

\* hash of the candidate at buffer offset i (i multiple of 4, 0 < i < MaxL) of a buffer that starts at stream offset p
Key(p, i) == H(W[(p + i) \div 4], W[(p + i) \div 4 + 1])
Candidates == {i \in 1..(MaxL - 1) : i % 4 = 0}
\* first strict arg-max with max_value starting at 0
Better(p, i) == /\ Key(p, i) > 0
                /\ \A j \in Candidates : j < i => Key(p, j) < Key(p, i)
                /\ \A j \in Candidates : Key(p, j) <= Key(p, i)
ArgMax(p) == IF \E i \in Candidates : Better(p, i) THEN CHOOSE i \in Candidates : Better(p, i) ELSE 0
Scan(p) == LET m == ArgMax(p) IN
           IF m < min THEN (IF Mutant = "noRoundUp" THEN min ELSE RoundUp4(min)) ELSE m

NextCut(p, size, final) ==
    IF final /\ size < 2 * MaxL THEN
         (IF size <= MaxL THEN size ELSE IF size < MaxL + min THEN size \div 2 ELSE MaxL)
    ELSE IF ~final /\ size < MaxL THEN 0
    ELSE Scan(p)

SumSeq(s) == FoldLeft(LAMBDA a, b : a + b, 0, s)

\* all ways to split n bytes into exactly m pieces (pieces may be empty)
RECURSIVE Splits(_, _)
Splits(n, m) == IF m = 1 THEN {<<n>>} ELSE UNION {{<<a>> \o r : r \in Splits(n - a, m - 1)} : a \in 0..n}

Init == /\ \E n \in 0..MaxWords : W \in [1..n -> Words]
        /\ tail \in 0..3 /\ min \in Mins
        /\ \E m \in 1..MaxPieces : seg \in Splits(Total, m)
        /\ k = 0 /\ pos = 0 /\ avail = 0 /\ out = <<>> /\ pc = "append"

\* buffer += chunk ; next_chunk = next(it, None)
AppendPiece == /\ pc = "append" /\ k < Len(seg)
          /\ k' = k + 1 /\ avail' = avail + seg[k + 1] /\ pc' = "cut"
          /\ UNCHANGED <<W, tail, min, seg, pos, out>>
\* pos = chunker.next_cut(buffer, next_chunk is None)
Cut == /\ pc = "cut"
       /\ LET fin == IF Mutant = "alwaysFinal" THEN TRUE ELSE Final
              c == NextCut(pos, avail, fin) IN
          IF c = 0 THEN /\ pc' = IF Final THEN "done" ELSE "append"
                        /\ UNCHANGED <<pos, avail, out>>
          ELSE /\ out' = Append(out, c)
               /\ pos' = pos + (IF Mutant = "dropByte" THEN c + 1 ELSE c)
               /\ avail' = avail - (IF Mutant = "dropByte" THEN c + 1 ELSE c)
               /\ pc' = "cut"
       /\ UNCHANGED <<W, tail, min, seg, k>>
Next == AppendPiece \/ Cut
Spec == Init /\ [][Next]_vars

(* ======================== properties ================================== *)
Starts(s) == [i \in 1..Len(s) |-> SumSeq(SubSeq(s, 1, i - 1))]
InTail(start) == start >= Total - 2 * MaxL                 \* chunks that begin within the last two maximum lengths

Lossless == pc = "done" => SumSeq(out) = Total /\ avail = 0
NonEmpty == \A i \in 1..Len(out) : out[i] > 0
Bounds   == \A i \in 1..Len(out) : ~InTail(Starts(out)[i]) => (min <= out[i] /\ out[i] <= MaxL /\ out[i] % 4 = 0)

\* the chunking of the same stream handed over in one piece
RECURSIVE OnePiece(_, _)
OnePiece(p, left) == IF left = 0 THEN <<>>
                     ELSE LET c == NextCut(p, left, TRUE) IN <<c>> \o OnePiece(p + c, left - c)
\* chunks that end before the tail zone begins do not depend on the segmentation
OutsideTail(s) == {<<Starts(s)[i], s[i]>> : i \in {j \in 1..Len(s) : ~InTail(Starts(s)[j])}}
SegmentationIndependent == pc = "done" => OutsideTail(out) = OutsideTail(OnePiece(0, Total))

\* C11 locality: the cut taken at stream offset p outside the tail zone is a function of the MaxL bytes that follow p:
\* two positions of the stream that are followed by the same words get the same cut
SameWindow(p, q) == \A i \in Candidates : Key(p, i) = Key(q, i)
SuffixLocal == pc = "done" =>
    \A i, j \in 1..Len(out) :
        LET p == Starts(out)[i]  q == Starts(out)[j] IN
        (~InTail(p) /\ ~InTail(q) /\ SameWindow(p, q)) => out[i] = out[j]
=============================================================================
