---------------------------- MODULE SettingsTrace ----------------------------
EXTENDS Naturals, Sequences, FiniteSets, TLC, TLCExt, Json, IOUtils
Traces == JsonDeserialize(IOEnv.TRACE_FILE)
VARIABLES tid, l, verdict, drift, reported
vars == <<tid, l, verdict, drift, reported>>
Tr == Traces[tid]
Ev == Tr.events

Clause(e) ==
  CASE e.a = "init" ->
         IF ~e.accepted /\ e.mutations > 0 THEN "P:RejectedLeavesBackendUntouched"
         ELSE IF e.accepted /\ ~e.unlock THEN "P:AcceptedUnlocksInFreshProcess"
         ELSE IF e.accepted /\ ~e.roundtrip THEN "P:AcceptedBacksUpAndRestores"
         ELSE "ok"
    [] e.a = "addkey" ->
         IF ~e.accepted /\ e.mutations > 0 THEN "P:RejectedLeavesBackendUntouched"
         ELSE IF e.accepted /\ ~e.roundtrip THEN "P:NewKeyWorks"
         ELSE "ok"
    [] e.a = "unlock" ->     \* every (key file, password) pair of a chain: ok iff the password is the key's own
         IF e.ok # e.own THEN (IF e.ok THEN "P:UnlocksWithForeignPassword" ELSE "P:OwnPasswordUnlocks") ELSE "ok"
    [] OTHER -> "ok"
Conf(e) == IF e.a = "init" /\ e.accepted # e.valid THEN (IF e.accepted THEN "C:accepted-though-invalid" ELSE "C:rejected-though-valid") ELSE "ok"

Init == tid \in 1..Len(Traces) /\ l = 1 /\ verdict = "ok" /\ drift = "ok" /\ reported = FALSE
Step == /\ ~reported /\ verdict = "ok" /\ l <= Len(Ev)
        /\ LET c == IF "waive" \in DOMAIN Ev[l] THEN "ok" ELSE Clause(Ev[l]) IN
           /\ verdict' = c /\ l' = IF c = "ok" THEN l + 1 ELSE l
           /\ drift' = IF drift = "ok" /\ Conf(Ev[l]) # "ok" THEN Conf(Ev[l]) ELSE drift
        /\ UNCHANGED <<tid, reported>>
Report == /\ ~reported /\ (verdict # "ok" \/ l > Len(Ev))
          /\ PrintT(<<"V", tid, l, verdict, drift>>) /\ reported' = TRUE /\ UNCHANGED <<tid, l, verdict, drift>>
Next == Step \/ Report
Spec == Init /\ [][Next]_vars
=============================================================================
