------------------------------ MODULE FormatTrace ------------------------------
(***************************************************************************)
(* C14 - what replicat writes follows the documented repository format.    *)
(* Every object and name written by real commands is decoded by the        *)
(* independent reader (rv/refcodec.py), which reports, per object, which   *)
(* relations it could VERIFY by recomputation (never by trusting replicat):*)
(*                                                                         *)
(*   chunk    nameIsMacOfDigest, tagIsMacOfName, keyIsKdfOfSharedAndDigest *)
(*            (AEAD opens under that key), plainHashesToDigest             *)
(*   snapshot nameIsHashOfBytes, tagIsMacOfName, tableUnderSharedSubkey    *)
(*            (key = Kdf(shared, Hash(private ciphertext))), privateUnder- *)
(*            UserKey, bytesTaggedJson                                     *)
(*   config   onlyAlgorithmSettings ; key file: privateUnderUserKey        *)
(*                                                                         *)
(* The specification states which relations each kind of object must       *)
(* satisfy in an encrypted / unencrypted repository.                       *)
(***************************************************************************)
EXTENDS Naturals, Sequences, FiniteSets, TLC, TLCExt, Json, IOUtils

Traces == JsonDeserialize(IOEnv.TRACE_FILE)
VARIABLES tid, l, verdict, reported
vars == <<tid, l, verdict, reported>>
Tr == Traces[tid]
Ev == Tr.events
Rng(s) == {s[i] : i \in DOMAIN s}

Required(kind, enc) ==
  CASE kind = "chunk" /\ enc  -> {"nameIsMacOfDigest", "tagIsMacOfName", "keyIsKdfOfSharedAndDigest", "plainHashesToDigest", "referenced"}
    [] kind = "chunk" /\ ~enc -> {"nameIsDigest", "tagIsName", "plainHashesToDigest", "referenced"}
    [] kind = "snapshot" /\ enc  -> {"nameIsHashOfBytes", "tagIsMacOfName", "tableUnderSharedSubkey", "privateUnderUserKey", "bytesTaggedJson", "tilesFiles"}
    [] kind = "snapshot" /\ ~enc -> {"nameIsHashOfBytes", "tagIsName", "plainJson", "bytesTaggedJson", "tilesFiles"}
    [] kind = "config" -> {"onlyAlgorithmSettings"}
    [] kind = "key" -> {"kdfParamsReadable", "privateUnderUserKey"}
    [] OTHER -> {"unknown-kind-of-object"}

Clause(e) == LET missing == Required(e.kind, Tr.encrypted) \ Rng(e.verified) IN
             IF missing = {} THEN "ok" ELSE "P:Format:" \o e.kind \o ":" \o (CHOOSE m \in missing : TRUE)

Init == tid \in 1..Len(Traces) /\ l = 1 /\ verdict = "ok" /\ reported = FALSE
Step == /\ ~reported /\ verdict = "ok" /\ l <= Len(Ev)
        /\ verdict' = Clause(Ev[l]) /\ l' = IF Clause(Ev[l]) = "ok" THEN l + 1 ELSE l
        /\ UNCHANGED <<tid, reported>>
Report == /\ ~reported /\ (verdict # "ok" \/ l > Len(Ev))
          /\ PrintT(<<"V", tid, l, verdict, "ok">>) /\ reported' = TRUE /\ UNCHANGED <<tid, l, verdict>>
Next == Step \/ Report
Spec == Init /\ [][Next]_vars
=============================================================================
