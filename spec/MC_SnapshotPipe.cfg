SPECIFICATION FairSpec
CONSTANTS
  K = 4
  N = 2
  QCap = 2
  MaxFaults = 1
  Mutant = "none"
INVARIANT InFlightBound
INVARIANT CommitComplete
INVARIANT NoCommitAfterFailure
INVARIANT SlotsRestored
INVARIANT NoSpuriousError
PROPERTY Terminates
CHECK_DEADLOCK FALSE
