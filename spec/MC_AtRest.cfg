SPECIFICATION Spec
CONSTANTS
  Procs = {1, 2}
  Contents = {1, 2}
  Mutant = "none"
CONSTRAINT Bound
INVARIANT NoSecretKnown
INVARIANT NonceUnique
CHECK_DEADLOCK FALSE
