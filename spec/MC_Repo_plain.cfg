SPECIFICATION Spec
CONSTANTS
  KeyGraph = "plain"
  Procs = {1, 2}
  Cids = {1, 2, 3}
  MaxSnaps = 2
  MaxFaults = 1
  Mutant = "none"
VIEW view
INVARIANT TypeOK
INVARIANT Safety
INVARIANT DedupExact
PROPERTY CleanExact
PROPERTY DeleteComplete
PROPERTY Confined
PROPERTY RepeatNoUpload
CHECK_DEADLOCK FALSE
