------------------------------- MODULE Services -------------------------------
(***************************************************************************)
(* What the fake object-store SERVICES used by the checks must do (they    *)
(* are trusted base for C12 C13 C16; this module keeps that base small:    *)
(* rv/fakes3.py and rv/fakeb2.py are replay-tested against it).            *)
(*                                                                         *)
(* S3 (path style): a map key -> body. ListObjectsV2(prefix, token, n):    *)
(*   the keys with the prefix in ascending order, at most n per page,      *)
(*   IsTruncated and a continuation token that resumes after the last key. *)
(* B2: per file name a history of versions ("upload" body | "hide").       *)
(*   visible(name) iff the newest version is an upload; download by name   *)
(*   serves it; b2_hide_file appends a hide marker, answers 400            *)
(*   no_such_file for a name without versions and 400 already_hidden when  *)
(*   the newest version is a hide marker; b2_list_file_names(prefix,       *)
(*   start, n): visible names >= start with the prefix, ascending, at most *)
(*   n, nextFileName = the next one or null.                               *)
(***************************************************************************)
EXTENDS Naturals, Sequences, FiniteSets, TLC, SequencesExt

\* names are sequences of code points; ascending order = lexicographic
RECURSIVE SeqLess(_, _)
SeqLess(a, b) == IF a = <<>> THEN b # <<>> ELSE IF b = <<>> THEN FALSE
                 ELSE IF a[1] # b[1] THEN a[1] < b[1] ELSE SeqLess(Tail(a), Tail(b))
Sorted(S) == SetToSortSeq(S, SeqLess)
Take(s, n) == SubSeq(s, 1, IF Len(s) < n THEN Len(s) ELSE n)

(* ---- S3 ---------------------------------------------------------------- *)
S3Put(st, k, body) == [x \in DOMAIN st \cup {k} |-> IF x = k THEN body ELSE st[x]]
S3Delete(st, k) == [x \in DOMAIN st \ {k} |-> st[x]]
S3Get(st, k) == IF k \in DOMAIN st THEN [status |-> 200, body |-> st[k]] ELSE [status |-> 404, body |-> 0]
\* after = <<>> for the first page, else the last key of the previous page
S3List(st, prefix, after, n) ==
    LET all == Sorted({k \in DOMAIN st : IsPrefix(prefix, k) /\ (after = <<>> \/ SeqLess(after, k))})
        page == Take(all, n)
    IN [keys |-> page, truncated |-> Len(all) > n]

(* ---- B2 ---------------------------------------------------------------- *)
\* st: name -> sequence of versions; a version is a body id > 0 (upload) or 0 (hide marker)
B2Visible(st) == {k \in DOMAIN st : st[k] # <<>> /\ Last(st[k]) # 0}
B2Upload(st, k, body) == [x \in DOMAIN st \cup {k} |-> IF x = k THEN (IF k \in DOMAIN st THEN Append(st[k], body) ELSE <<body>>) ELSE st[x]]
B2HideResult(st, k) == IF k \notin DOMAIN st \/ st[k] = <<>> THEN "no_such_file" ELSE IF Last(st[k]) = 0 THEN "already_hidden" ELSE "ok"
B2Hide(st, k) == IF B2HideResult(st, k) = "ok" THEN [st EXCEPT ![k] = Append(@, 0)] ELSE st
B2Get(st, k) == IF k \in B2Visible(st) THEN [status |-> 200, body |-> Last(st[k])] ELSE [status |-> 404, body |-> 0]
B2List(st, prefix, start, n) ==
    LET all == Sorted({k \in B2Visible(st) : IsPrefix(prefix, k) /\ (start = <<>> \/ k = start \/ SeqLess(start, k))})
        page == Take(all, n)
    IN [names |-> page, next |-> IF Len(all) > n THEN all[n + 1] ELSE <<>>]
=============================================================================
