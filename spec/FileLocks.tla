------------------------------ MODULE FileLocks ------------------------------
(***************************************************************************)
(* C09 - the per-file write locks of restore (replicat/repository.py,      *)
(* restore() -> _write_chunk_ref).  Several writer threads may hold parts  *)
(* of the same file; the table of per-file locks is created on demand and  *)
(* reference counted under the global lock `glock`:                        *)
(*                                                                         *)
(*   with glock:   entry exists ? refcount += 1 : create lock, refcount = 1*)
(*   with flock:   seek + write the part            (hooks write.begin /   *)
(*                                                   write)                *)
(*   with glock:   refcount -= 1 ; if 0: delete lock and refcount entries  *)
(*                                                                         *)
(* One action per critical section.  A lock OBJECT has an identity: when   *)
(* the entry is deleted and created again, a writer still holding the old  *)
(* object and a writer holding the new one exclude nobody.                 *)
(*                                                                         *)
(* Invariants: NoKeyError (no decrement / delete of a missing entry),      *)
(* WritersExclusive (at most one writer inside the write section of a      *)
(* file), NoLeak (all done => table empty).                                *)
(* Mutant "splitRelease": the release is done in two critical sections     *)
(* (decrement and remember `unused`; later delete if unused) - the seeded  *)
(* change C09_agent3; TLC finds both the KeyError and the double writer.   *)
(***************************************************************************)
EXTENDS Naturals, FiniteSets, TLC

CONSTANTS Writers, Files, PartsOf, Mutant      \* PartsOf[w] = the file writer w has a part of
VARIABLES pc, lockOf, refcount, held, mine, unused, nextId, error
vars == <<pc, lockOf, refcount, held, mine, unused, nextId, error>>

Init == /\ pc = [w \in Writers |-> "start"]
        /\ lockOf = [f \in Files |-> 0]            \* 0 = no entry; otherwise the identity of the lock object
        /\ refcount = [f \in Files |-> 0]
        /\ held = {}                               \* identities of lock objects currently held
        /\ mine = [w \in Writers |-> 0]            \* the lock object writer w obtained from the table
        /\ unused = [w \in Writers |-> FALSE]
        /\ nextId = 1 /\ error = FALSE

F(w) == PartsOf[w]

\* with glock: look the lock up or create it
Lookup(w) == /\ pc[w] = "start"
             /\ IF lockOf[F(w)] = 0
                THEN /\ lockOf' = [lockOf EXCEPT ![F(w)] = nextId] /\ refcount' = [refcount EXCEPT ![F(w)] = 1]
                     /\ mine' = [mine EXCEPT ![w] = nextId] /\ nextId' = nextId + 1
                ELSE /\ refcount' = [refcount EXCEPT ![F(w)] = @ + 1] /\ mine' = [mine EXCEPT ![w] = lockOf[F(w)]]
                     /\ UNCHANGED <<lockOf, nextId>>
             /\ pc' = [pc EXCEPT ![w] = "wantflock"] /\ UNCHANGED <<held, unused, error>>
\* with flock: (blocks while the object is held)
Enter(w) == /\ pc[w] = "wantflock" /\ mine[w] \notin held
            /\ held' = held \cup {mine[w]} /\ pc' = [pc EXCEPT ![w] = "writing"]
            /\ UNCHANGED <<lockOf, refcount, mine, unused, nextId, error>>
Leave(w) == /\ pc[w] = "writing"
            /\ held' = held \ {mine[w]} /\ pc' = [pc EXCEPT ![w] = "release"]
            /\ UNCHANGED <<lockOf, refcount, mine, unused, nextId, error>>
\* with glock: give the reference back; the last one removes the entries
Release(w) == /\ pc[w] = "release" /\ Mutant # "splitRelease"
              /\ IF lockOf[F(w)] = 0 THEN error' = TRUE /\ UNCHANGED <<lockOf, refcount>>
                 ELSE /\ error' = error
                      /\ IF refcount[F(w)] = 1 THEN lockOf' = [lockOf EXCEPT ![F(w)] = 0] /\ refcount' = [refcount EXCEPT ![F(w)] = 0]
                         ELSE refcount' = [refcount EXCEPT ![F(w)] = @ - 1] /\ UNCHANGED lockOf
              /\ pc' = [pc EXCEPT ![w] = "done"] /\ UNCHANGED <<held, mine, unused, nextId>>
\* the mutant: two critical sections
Release1(w) == /\ pc[w] = "release" /\ Mutant = "splitRelease"
               /\ IF lockOf[F(w)] = 0 THEN error' = TRUE /\ UNCHANGED <<refcount, unused>>
                  ELSE /\ error' = error /\ refcount' = [refcount EXCEPT ![F(w)] = @ - 1]
                       /\ unused' = [unused EXCEPT ![w] = refcount[F(w)] = 1]
               /\ pc' = [pc EXCEPT ![w] = "release2"] /\ UNCHANGED <<lockOf, held, mine, nextId>>
Release2(w) == /\ pc[w] = "release2"
               /\ IF unused[w]
                  THEN IF lockOf[F(w)] = 0 THEN error' = TRUE /\ UNCHANGED <<lockOf, refcount>>
                       ELSE error' = error /\ lockOf' = [lockOf EXCEPT ![F(w)] = 0] /\ refcount' = [refcount EXCEPT ![F(w)] = 0]
                  ELSE UNCHANGED <<lockOf, refcount, error>>
               /\ pc' = [pc EXCEPT ![w] = "done"] /\ UNCHANGED <<held, mine, unused, nextId>>

Next == \E w \in Writers : Lookup(w) \/ Enter(w) \/ Leave(w) \/ Release(w) \/ Release1(w) \/ Release2(w)
Spec == Init /\ [][Next]_vars /\ WF_vars(Next)

NoKeyError == ~error
WritersExclusive == \A f \in Files : Cardinality({w \in Writers : pc[w] = "writing" /\ F(w) = f}) <= 1
\* a writer inside the write section holds the CURRENT lock object of its file
HoldsCurrent == \A w \in Writers : pc[w] = "writing" => mine[w] = lockOf[F(w)]
NoLeak == (\A w \in Writers : pc[w] = "done") => (\A f \in Files : lockOf[f] = 0 /\ refcount[f] = 0)
AllDone == <>(\A w \in Writers : pc[w] = "done")

PartsOfDef == [w \in {1, 2, 3, 4} |-> IF w = 4 THEN 2 ELSE 1]
=============================================================================
