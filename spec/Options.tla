------------------------------- MODULE Options -------------------------------
(***************************************************************************)
(* C19 - option precedence: command line over environment over profile     *)
(* over the default section of the configuration file over the built-in    *)
(* default, with the same coercion whichever source supplied the value.    *)
(*                                                                         *)
(* The space is finite: option x subset of the sources in which it is set  *)
(* x command.  TLC enumerates it completely (one state per case, printed   *)
(* for the replay into replicat.__main__.main()); Effective is the single  *)
(* definition of which source must win, shared with OptionsTrace.tla.      *)
(***************************************************************************)
EXTENDS Naturals, Sequences, FiniteSets, TLC

Order == <<"cli", "env", "profile", "default", "builtin">>
\* sources in which an option of a given kind can be set at all
Avail(kind) ==
  CASE kind = "repository" -> {"cli", "env", "profile", "default"}
    [] kind = "password"   -> {"cli", "env", "profile", "default"}
    [] kind = "common"     -> {"cli", "profile", "default"}            \* concurrent, hide-progress, cache-directory, key-file ...
    [] kind = "fileonly"   -> {"profile", "default"}                   \* log-level
    [] kind = "backend"    -> {"cli", "env", "profile", "default"}     \* constructor keyword arguments of the backend class
    [] OTHER -> {}
Rank(s) == CHOOSE i \in DOMAIN Order : Order[i] = s
\* the source whose value is in effect when the option is set in `present`
Effective(present) == LET c == present \cup {"builtin"} IN CHOOSE s \in c : \A t \in c : Rank(s) <= Rank(t)

\* the options, kinds and commands of replicat (cfg files cannot hold functions: Options <- OptionsDef, ...)
OptionsDef == {"repository", "password", "concurrent", "hide-progress", "cache-directory", "key-file", "log-level",
               "s3c.key-id", "s3c.region", "s3c.scheme", "pc.token", "pc.port", "pc.secure",
               "s3.key-id", "s3.region", "b2.key-id", "b2.application-key"}      \* s3 is a SUBCLASS of the s3c backend class: its environment variables are S3_..., not S3C_...
KindOfDef == [o \in OptionsDef |->
               CASE o = "repository" -> "repository" [] o = "password" -> "password" [] o = "log-level" -> "fileonly"
                 [] o \in {"concurrent", "hide-progress", "cache-directory", "key-file"} -> "common"
                 [] OTHER -> "backend"]
CommandsDef == {"init", "add-key", "list-snapshots", "ls", "list-files", "lf", "snapshot", "restore", "delete", "clean", "benchmark",
                "upload-objects", "download-objects", "list-objects", "delete-objects"}

\* options whose built-in default can also be written down explicitly in a source.  `same` names the source (if any) that spells out
\* exactly the built-in default: a value is "given" by being present in a source, not by differing from the default.
HasDefault == {"concurrent", "hide-progress", "log-level", "s3c.scheme", "pc.port", "pc.secure"}
CanSpell(o, src) == o \in HasDefault /\ ~(o = "hide-progress" /\ src = "cli")      \* -q is a flag: the command line cannot say "false"

CONSTANTS Options, KindOf, Commands
VARIABLES case
Init == case \in [o : Options, present : SUBSET {"cli", "env", "profile", "default"}, cmd : Commands, same : {"none", "cli", "env", "profile", "default"}]
Next == UNCHANGED case
Spec == Init /\ [][Next]_case
Legal == /\ case.present \subseteq Avail(KindOf[case.o])
         /\ (case.same = "none" \/ (case.same \in case.present /\ CanSpell(case.o, case.same)))
\* sanity of the definition: the winner is set (or builtin), and nothing of higher rank is set
EffectiveSound == Legal => LET w == Effective(case.present) IN
                    /\ (w \in case.present \/ w = "builtin")
                    /\ \A s \in case.present : Rank(w) <= Rank(s)
Emit == Legal => PrintT(<<"O", case.o, case.present, case.cmd, Effective(case.present), case.same>>)
=============================================================================
