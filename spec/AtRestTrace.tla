----------------------------- MODULE AtRestTrace -----------------------------
(***************************************************************************)
(* Everything real commands wrote into an encrypted repository (object     *)
(* names and bodies, key files, stdout of init / add-key), decoded by the  *)
(* independent reader.  Per item:                                          *)
(*   verified  relations established by recomputation (as in FormatTrace): *)
(*             they say every secret sits inside authenticated ciphertext  *)
(*             under the right key and that names are keyed MACs           *)
(*   nonces    <<key id, nonce>> of every ciphertext in the item           *)
(*   canaries  secrets found by scanning the raw bytes / names in raw,     *)
(*             hex, base64 and JSON-escaped form                           *)
(* The state carries the (key, nonce) pairs seen so far in the whole run.  *)
(***************************************************************************)
EXTENDS Naturals, Sequences, FiniteSets, TLC, TLCExt, Json, IOUtils

Traces == JsonDeserialize(IOEnv.TRACE_FILE)
VARIABLES tid, l, seen, verdict, reported
vars == <<tid, l, seen, verdict, reported>>
Tr == Traces[tid]
Ev == Tr.events
Rng(s) == {s[i] : i \in DOMAIN s}

Required(kind) ==
  CASE kind = "chunk"    -> {"nameIsMacOfDigest", "tagIsMacOfName", "keyIsKdfOfSharedAndDigest", "plainHashesToDigest", "referenced"}
    [] kind = "snapshot" -> {"nameIsHashOfBytes", "tagIsMacOfName", "tableUnderSharedSubkey", "privateUnderUserKey", "bytesTaggedJson", "onlyCiphertextFields"}
    [] kind = "config"   -> {"onlyAlgorithmSettings"}
    [] kind = "key"      -> {"kdfParamsReadable", "privateUnderUserKey", "onlyPublicKdfFields"}
    [] kind = "stdout"   -> {}
    [] OTHER -> {"unknown-kind-of-object"}

\* pairs: <<key id, nonce, ciphertext id>>
Reused(e) == \E p \in Rng(e.nonces) : \E q \in seen : p[1] = q[1] /\ p[2] = q[2] /\ p[3] # q[3]
Clause(e) ==
  LET missing == Required(e.kind) \ Rng(e.verified) IN
  IF e.canaries # <<>> THEN "P:NoSecretInTheClear"
  ELSE IF missing # {} THEN "P:OnlyAuthenticatedCiphertext:" \o e.kind \o ":" \o (CHOOSE m \in missing : TRUE)
  ELSE IF Reused(e) THEN "P:NonceUnique"
  ELSE "ok"

Init == tid \in 1..Len(Traces) /\ l = 1 /\ seen = {} /\ verdict = "ok" /\ reported = FALSE
Step == /\ ~reported /\ verdict = "ok" /\ l <= Len(Ev)
        /\ LET c == IF "waive" \in DOMAIN Ev[l] THEN "ok" ELSE Clause(Ev[l]) IN
           /\ verdict' = c /\ l' = IF c = "ok" THEN l + 1 ELSE l
           /\ seen' = IF c = "ok" THEN seen \cup Rng(Ev[l].nonces) ELSE seen
        /\ UNCHANGED <<tid, reported>>
Report == /\ ~reported /\ (verdict # "ok" \/ l > Len(Ev))
          /\ PrintT(<<"V", tid, l, verdict, "ok">>) /\ reported' = TRUE /\ UNCHANGED <<tid, l, seen, verdict>>
Next == Step \/ Report
Spec == Init /\ [][Next]_vars
=============================================================================
