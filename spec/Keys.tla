-------------------------------- MODULE Keys --------------------------------
(***************************************************************************)
(* Keys of an encrypted repository (C06 unlock clause, C17 add-key chains).*)
(* A key file is <<kdf salt, private section encrypted under               *)
(* Kdf(password, salt)>>; the private section holds the family secrets     *)
(* (shared key, MAC key, chunker key).                                     *)
(*   init            new family, new salt                                  *)
(*   add-key         independent: new family ; shared: the caller's family *)
(*                   and a new password ; clone: the caller's family and   *)
(*                   the caller's password ; always a fresh salt           *)
(* Unlock(pw, key) succeeds iff the private section decrypts, i.e. iff     *)
(* Kdf(pw, key.salt) is the key it was encrypted under.                    *)
(* Mutant wrongWrappingKey: add-key encrypts the new private section under *)
(* the CALLER's user key instead of the new key's.                         *)
(***************************************************************************)
EXTENDS Naturals, FiniteSets, Sequences, TLC

CONSTANTS MaxKeys, Passwords, Mutant
VARIABLES keys, nfam          \* keys: sequence of [fam, pw, salt, wrap]; wrap = <<pw, salt>> the private section is really encrypted under
vars == <<keys, nfam>>

Init == keys = <<>> /\ nfam = 0
DoInit(pw) == /\ keys = <<>> /\ nfam' = 1
              /\ keys' = <<[fam |-> 1, pw |-> pw, salt |-> 1, wrap |-> <<pw, 1>>]>>
AddKey(from, kind, pw) ==
    /\ keys # <<>> /\ Len(keys) < MaxKeys /\ from \in DOMAIN keys
    /\ LET salt == Len(keys) + 1
           npw  == IF kind = "clone" THEN keys[from].pw ELSE pw
           fam  == IF kind = "independent" THEN nfam + 1 ELSE keys[from].fam
           wrap == IF Mutant = "wrongWrappingKey" /\ kind # "independent" THEN keys[from].wrap ELSE <<npw, salt>>
       IN /\ keys' = Append(keys, [fam |-> fam, pw |-> npw, salt |-> salt, wrap |-> wrap])
          /\ nfam' = IF kind = "independent" THEN nfam + 1 ELSE nfam
Next == \/ \E pw \in Passwords : DoInit(pw)
        \/ \E from \in 1..MaxKeys, kind \in {"independent", "shared", "clone"}, pw \in Passwords : AddKey(from, kind, pw)
Spec == Init /\ [][Next]_vars

Unlocks(pw, k) == <<pw, keys[k].salt>> = keys[k].wrap
\* every key unlocks with its own password and with no other
OwnPasswordOnly == \A k \in DOMAIN keys : \A pw \in Passwords : Unlocks(pw, k) <=> pw = keys[k].pw
\* shared and cloned keys stay in the family of the key they were made from; independent keys never share a family
FamiliesSound == \A a, b \in DOMAIN keys : (keys[a].fam = keys[b].fam /\ a # b) => (keys[a].salt # keys[b].salt)
=============================================================================
