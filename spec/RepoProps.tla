----------------------------- MODULE RepoProps -----------------------------
(***************************************************************************)
(* The observable statements of the repository properties C02 C03 C06 C07  *)
(* C08 as pure operators over an explicit repository state                 *)
(*                                                                         *)
(*   chunks  set of <<family, cid>>   chunk objects present                *)
(*   bad     subset of chunks whose stored bytes do not authenticate /     *)
(*           hash to the content they are named after                      *)
(*   snaps   set of snapshot ids whose object is present (listed)          *)
(*   body    sid -> [fam, table, ...]  immutable, content addressed        *)
(*                                                                         *)
(* Both the design model (Repo.tla, variables) and the trace specification *)
(* (RepoTrace.tla, state projected from the real backend) evaluate these   *)
(* same operators: one source of truth for what the properties say.        *)
(***************************************************************************)
EXTENDS Naturals, FiniteSets

ListedOf(snaps, body, f) == {s \in snaps : body[s].fam = f}
TablesOf(body, S) == UNION {body[s].table : s \in S}
ChunksOfFam(chunks, f) == {x[2] : x \in {y \in chunks : y[1] = f}}

\* C02 / C03: every listed snapshot is complete and its chunks are undamaged
SafetyOf(chunks, bad, snaps, body) ==
    \A s \in snaps : \A c \in body[s].table : <<body[s].fam, c>> \in chunks /\ <<body[s].fam, c>> \notin bad

\* the snapshots that are NOT complete (for diagnostics)
Damaged(chunks, bad, snaps, body) ==
    {s \in snaps : \E c \in body[s].table : <<body[s].fam, c>> \notin chunks \/ <<body[s].fam, c>> \in bad}

\* C08: the chunk objects of family f are exactly the referenced ones
CleanExactOf(chunks, snaps, body, f) ==
    ChunksOfFam(chunks, f) = TablesOf(body, ListedOf(snaps, body, f))

\* C08: nothing that was referenced only by the deleted snapshots D is left
DeleteCompleteOf(chunks, snaps, body, f, D) ==
    \A c \in TablesOf(body, D) :
        (c \notin TablesOf(body, ListedOf(snaps, body, f))) => <<f, c>> \notin chunks

\* C07: stored once - no orphan, nothing missing (quiescent, crash-free since the last clean)
DedupExactOf(chunks, snaps, body, f) == CleanExactOf(chunks, snaps, body, f)
=============================================================================
