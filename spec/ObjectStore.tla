------------------------------ MODULE ObjectStore ------------------------------
(***************************************************************************)
(* C13 - all backends behave as the same simple object store: a map from   *)
(* names to byte strings.  Names are sequences of code points so that the  *)
(* prefix relation of `list` is decided here (IsPrefix), not by a harness. *)
(*                                                                         *)
(* Apply / Result are the single source of truth: the design model below   *)
(* explores them, and ObjectStoreTrace.tla replays the operations recorded *)
(* from the real local, S3-compatible and B2 adapters through the very     *)
(* same operators, requiring every observed result to equal Result.        *)
(***************************************************************************)
EXTENDS Naturals, Sequences, FiniteSets, TLC, SequencesExt

\* op = [k |-> "upload" | "upload_stream" | "delete" | "exists" | "download" | "download_stream" | "list", n |-> name, c |-> content id]
Apply(store, op) ==
    CASE op.k \in {"upload", "upload_stream"} -> [x \in DOMAIN store \cup {op.n} |-> IF x = op.n THEN op.c ELSE store[x]]
      [] op.k = "delete" -> [x \in DOMAIN store \ {op.n} |-> store[x]]
      [] OTHER -> store

Missing == 0     \* content ids are positive
Result(store, op) ==
    CASE op.k = "exists" -> [ok |-> TRUE, v |-> IF op.n \in DOMAIN store THEN 1 ELSE 0, names |-> {}]
      [] op.k \in {"download", "download_stream"} ->
            IF op.n \in DOMAIN store THEN [ok |-> TRUE, v |-> store[op.n], names |-> {}] ELSE [ok |-> FALSE, v |-> Missing, names |-> {}]
      [] op.k = "list" -> [ok |-> TRUE, v |-> 0, names |-> {x \in DOMAIN store : IsPrefix(op.n, x)}]
      [] OTHER -> [ok |-> TRUE, v |-> 0, names |-> {}]          \* upload, delete: succeed, also delete of a missing name

(* ---- design model: small names, every operation ---------------------- *)
CONSTANTS Names, Contents, MaxOps
VARIABLES store, last, nops
SmallNames == {<<1>>, <<1, 2>>, <<2, 1>>, <<2, 1, 3>>}     \* cfg files cannot hold tuples: Names <- SmallNames
vars == <<store, last, nops>>
NamePrefixes == UNION {{SubSeq(n, 1, i) : i \in 0..Len(n)} : n \in Names}
Ops == [k : {"upload", "upload_stream"}, n : Names, c : Contents]
       \cup [k : {"delete", "exists", "download", "download_stream"}, n : Names, c : {0}]
       \cup [k : {"list"}, n : NamePrefixes, c : {0}]
Init == store = <<>> /\ last = [op |-> [k |-> "init", n |-> <<>>, c |-> 0], res |-> [ok |-> TRUE, v |-> 0, names |-> {}]] /\ nops = 0
Next == /\ nops < MaxOps
        /\ \E op \in Ops : store' = Apply(store, op) /\ last' = [op |-> op, res |-> Result(store, op)]
        /\ nops' = nops + 1
Spec == Init /\ [][Next]_vars

\* sanity of the specification itself
ListSound == last.op.k = "list" => last.res.names \subseteq DOMAIN store
UploadThenVisible == [][\A op \in Ops : (last'.op = op /\ op.k \in {"upload", "upload_stream"}) => (op.n \in DOMAIN store' /\ store'[op.n] = op.c)]_vars
DeleteIdempotent == [][\A op \in Ops : (last'.op = op /\ op.k = "delete") => (op.n \notin DOMAIN store' /\ last'.res.ok)]_vars
=============================================================================
