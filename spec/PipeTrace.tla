------------------------------- MODULE PipeTrace -------------------------------
(***************************************************************************)
(* C09 - events recorded from real snapshot / restore executions (sync     *)
(* hooks in arrival order + every backend transfer start / end) under      *)
(* scripted and perturbed schedules.  The observable clauses of            *)
(* SnapshotPipe.tla / RestorePipe.tla are evaluated on every event:        *)
(*   P:InFlightBound        at most N backend transfers outstanding        *)
(*   P:GetAfterPut, P:ChunkDoneOnce, P:CommitAfterAllChunks  (snapshot)    *)
(*   P:FinalisedOnce, P:FinaliseAfterWrites, C:WritesExclusivePerFile      *)
(*                                                           (restore)     *)
(*   P:NoSpuriousError, P:Terminates, P:SameAsSequential, P:SlotsRestored  *)
(***************************************************************************)
EXTENDS Naturals, Sequences, FiniteSets, TLC, TLCExt, Json, IOUtils

Traces == JsonDeserialize(IOEnv.TRACE_FILE)
VARIABLES tid, l, st, verdict, reported
vars == <<tid, l, st, verdict, reported>>
Tr == Traces[tid]
Ev == Tr.events
NSlots == Tr.n

State0 == [inflight |-> 0, put |-> {}, got |-> {}, done |-> {}, writes |-> [f \in 1..Tr.nfiles |-> 0], fin |-> {}, writing |-> {}]
Apply(s, e) ==
  CASE e.a = "call+" -> [s EXCEPT !.inflight = @ + 1]
    [] e.a = "call-" -> [s EXCEPT !.inflight = IF @ > 0 THEN @ - 1 ELSE 0]
    [] e.a = "put" -> [s EXCEPT !.put = @ \cup {e.k}]
    [] e.a = "get" -> [s EXCEPT !.got = @ \cup {e.k}]
    [] e.a = "chunk_done" -> [s EXCEPT !.done = @ \cup {e.k}]
    [] e.a = "write.begin" -> [s EXCEPT !.writing = @ \cup {e.f}]
    [] e.a = "write" -> [s EXCEPT !.writes[e.f] = @ + 1, !.writing = @ \ {e.f}]
    [] e.a = "utime" -> [s EXCEPT !.fin = @ \cup {e.f}]
    [] OTHER -> s

Clause(s, e) ==
  CASE e.a = "call+" -> IF s.inflight + 1 > NSlots THEN "P:InFlightBound" ELSE "ok"
    \* ("get" is not judged against "put": the put hook fires after the chunk is already visible in the queue, so a consumer's
    \*  "get" can be logged first - log order between two threads means nothing there; a worker's own get -> chunk_done order does)
    [] e.a = "chunk_done" -> IF e.k \in s.done THEN "P:ChunkDoneOnce" ELSE IF e.k \notin s.got THEN "P:GetAfterPut" ELSE "ok"
    [] e.a = "commit" -> IF s.done # 1..e.chunks \/ s.inflight # 0 THEN "P:CommitAfterAllChunks" ELSE "ok"
    \* FileLocks.tla WritersExclusive: nobody else is inside the write section of that file (hooks write.begin ... write under the file's lock)
    \* conformance only (C:... = DRIFT): an implementation that writes disjoint parts of a file without a lock would still satisfy C09
    [] e.a = "write.begin" -> IF e.f \in s.writing THEN "C:WritesExclusivePerFile" ELSE "ok"
    [] e.a = "utime" -> IF e.f \in s.fin THEN "P:FinalisedOnce"
                        ELSE IF e.f \in s.writing THEN "P:FinaliseAfterWrites"
                        ELSE IF s.writes[e.f] # Tr.expected[e.f] THEN "P:FinaliseAfterWrites" ELSE "ok"
    [] e.a = "end" -> IF e.hung THEN "P:Terminates"
                      ELSE IF ~e.ok /\ ~e.fault THEN "P:NoSpuriousError"
                      ELSE IF e.ok /\ ~e.same THEN "P:SameAsSequential"
                      ELSE IF e.free # NSlots THEN "P:SlotsRestored"
                      ELSE IF e.ok /\ Tr.kind = "restore" /\ s.fin # 1..Tr.nfiles THEN "P:AllFinalised"
                      ELSE "ok"
    [] OTHER -> "ok"

Init == tid \in 1..Len(Traces) /\ l = 1 /\ st = State0 /\ verdict = "ok" /\ reported = FALSE
Step == /\ ~reported /\ verdict = "ok" /\ l <= Len(Ev)
        /\ LET c == IF "waive" \in DOMAIN Ev[l] THEN "ok" ELSE Clause(st, Ev[l]) IN
           /\ verdict' = c /\ l' = IF c = "ok" THEN l + 1 ELSE l
           /\ st' = IF c = "ok" THEN Apply(st, Ev[l]) ELSE st
        /\ UNCHANGED <<tid, reported>>
Report == /\ ~reported /\ (verdict # "ok" \/ l > Len(Ev))
          /\ PrintT(<<"V", tid, l, verdict, "ok">>) /\ reported' = TRUE /\ UNCHANGED <<tid, l, st, verdict>>
Next == Step \/ Report
Spec == Init /\ [][Next]_vars
=============================================================================
