SPECIFICATION Spec
CONSTANTS
  MaxKeys = 4
  Passwords = {"p1", "p2", "p3"}
  Mutant = "none"
INVARIANT OwnPasswordOnly
INVARIANT FamiliesSound
CHECK_DEADLOCK FALSE
