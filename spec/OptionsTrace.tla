----------------------------- MODULE OptionsTrace -----------------------------
(***************************************************************************)
(* One event per real invocation of replicat.__main__.main() with an       *)
(* option set in a subset of the five sources (distinct raw values per     *)
(* source, so the value that reaches the command handler identifies the    *)
(* source that won).                                                       *)
(***************************************************************************)
EXTENDS Naturals, Sequences, FiniteSets, TLC, TLCExt, Json, IOUtils

CONSTANTS Options, KindOf, Commands
VARIABLE case
INSTANCE Options

Traces == JsonDeserialize(IOEnv.TRACE_FILE)
VARIABLES tid, l, verdict, reported
tvars == <<tid, l, verdict, reported, case>>
Tr == Traces[tid]
Ev == Tr.events
Rng(s) == {s[i] : i \in DOMAIN s}

Clause(e) ==
  IF e.kind = "exclusive" THEN (IF ~e.rejected THEN "P:MutuallyExclusiveRejected" ELSE "ok")
  ELSE IF ~e.ran THEN "P:InvocationAccepted"
  ELSE IF Effective(Rng(e.present)) \notin Rng(e.consistent) THEN "P:Precedence"    \* the value that arrived is the one of the winning source
  ELSE IF ~e.typeok THEN "P:SameCoercion"
  ELSE "ok"

TInit == tid \in 1..Len(Traces) /\ l = 1 /\ verdict = "ok" /\ reported = FALSE /\ case = 0
Step == /\ ~reported /\ verdict = "ok" /\ l <= Len(Ev)
        /\ LET c == IF "waive" \in DOMAIN Ev[l] THEN "ok" ELSE Clause(Ev[l]) IN verdict' = c /\ l' = IF c = "ok" THEN l + 1 ELSE l
        /\ UNCHANGED <<tid, reported, case>>
Report == /\ ~reported /\ (verdict # "ok" \/ l > Len(Ev))
          /\ PrintT(<<"V", tid, l, verdict, "ok">>) /\ reported' = TRUE /\ UNCHANGED <<tid, l, verdict, case>>
TNext == Step \/ Report
TSpec == TInit /\ [][TNext]_tvars
=============================================================================
