SPECIFICATION Spec
CONSTANTS
  MaxL = 8
  Mins = {1, 4, 5, 8}
  MaxWords = 6
  MaxPieces = 2
  HSel = "mix"
  Mutant = "none"
INVARIANT Lossless
INVARIANT NonEmpty
INVARIANT Bounds
INVARIANT SegmentationIndependent
INVARIANT SuffixLocal
CHECK_DEADLOCK FALSE
