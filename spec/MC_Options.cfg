SPECIFICATION Spec
CONSTANTS
  Options <- OptionsDef
  KindOf <- KindOfDef
  Commands <- CommandsDef
INVARIANT EffectiveSound
INVARIANT Emit
CHECK_DEADLOCK FALSE
