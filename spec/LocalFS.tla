------------------------------- MODULE LocalFS -------------------------------
(***************************************************************************)
(* The local backend as a sequence of file-system calls                    *)
(* (replicat/backends/local.py: upload / upload_stream / delete).          *)
(*                                                                         *)
(* An upload of object o with payload of Len[o] bytes by client c is       *)
(*   Creat(c)  - a temporary sibling "o_xxx.tmp" is created                *)
(*   Write(c)  - the payload arrives in pieces                             *)
(*   Close(c)  ; Rename(c) - atomic replace of the destination             *)
(* A crash may stop a client between any two calls. Readers (list_files,   *)
(* exists, download) may run between any two calls: they see `Visible`.    *)
(*                                                                         *)
(* Invariant (C03): no partially written object can be observed.           *)
(* Mutant "direct": the payload is written straight into the destination.  *)
(* Mutant "listtmp": the listing does not hide temporaries.                *)
(***************************************************************************)
EXTENDS Naturals, FiniteSets, TLC

CONSTANTS Clients, Objects, MaxLen, Mutant

VARIABLES files,   \* path -> [len, want]  ; path = <<"obj", o>> or <<"tmp", o, c>>
          pc,      \* client -> "idle" | "created" | "writing" | "closed" | "crashed"
          job      \* client -> [o, want]
vars == <<files, pc, job>>

Tmp(o, c) == IF Mutant = "direct" THEN <<"obj", o>> ELSE <<"tmp", o, c>>
IsTmp(p) == p[1] = "tmp"
Listed == {p \in DOMAIN files : Mutant = "listtmp" \/ ~IsTmp(p)}      \* what list_files yields
Exists(p) == p \in DOMAIN files

Init == files = <<>> /\ pc = [c \in Clients |-> "idle"] /\ job = [c \in Clients |-> [o |-> CHOOSE o \in Objects : TRUE, want |-> 0]]

Begin(c, o, n) == /\ pc[c] = "idle"
                  /\ job' = [job EXCEPT ![c] = [o |-> o, want |-> n]]
                  /\ files' = (Tmp(o, c) :> [len |-> 0, want |-> n]) @@ files      \* O_CREAT|O_TRUNC
                  /\ pc' = [pc EXCEPT ![c] = "writing"]
Write(c) == /\ pc[c] = "writing"
            /\ LET p == Tmp(job[c].o, c) IN
               /\ files[p].len < job[c].want
               /\ \E k \in 1..(job[c].want - files[p].len) :
                    files' = [files EXCEPT ![p].len = @ + k]
            /\ UNCHANGED <<pc, job>>
Close(c) == /\ pc[c] = "writing" /\ files[Tmp(job[c].o, c)].len = job[c].want
            /\ pc' = [pc EXCEPT ![c] = "closed"] /\ UNCHANGED <<files, job>>
Rename(c) == /\ pc[c] = "closed"
             /\ LET src == Tmp(job[c].o, c)  dst == <<"obj", job[c].o>> IN
                files' = IF src = dst THEN files
                         ELSE [p \in (DOMAIN files \ {src}) \cup {dst} |-> IF p = dst THEN files[src] ELSE files[p]]
             /\ pc' = [pc EXCEPT ![c] = "idle"] /\ UNCHANGED job
Delete(c, o) == /\ pc[c] = "idle" /\ <<"obj", o>> \in DOMAIN files
                /\ files' = [p \in DOMAIN files \ {<<"obj", o>>} |-> files[p]]
                /\ UNCHANGED <<pc, job>>
Crash(c) == /\ pc[c] \in {"writing", "closed"} /\ pc' = [pc EXCEPT ![c] = "crashed"] /\ UNCHANGED <<files, job>>

Next == \E c \in Clients :
          \/ \E o \in Objects, n \in 0..MaxLen : Begin(c, o, n)
          \/ Write(c) \/ Close(c) \/ Rename(c) \/ Crash(c)
          \/ \E o \in Objects : Delete(c, o)
Spec == Init /\ [][Next]_vars

\* C03: whatever a reader can list is a completely written object
NoPartialVisible == \A p \in Listed : files[p].len = files[p].want
\* C03: an object that exists under its final name is complete (exists / download)
NoPartialExists == \A o \in Objects : Exists(<<"obj", o>>) => files[<<"obj", o>>].len = files[<<"obj", o>>].want
\* C13: an upload atomically replaces - the destination never shrinks to a partial state in between
=============================================================================
