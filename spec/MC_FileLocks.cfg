SPECIFICATION Spec
CONSTANTS
  Writers = {1, 2, 3, 4}
  Files = {1, 2}
  PartsOf <- PartsOfDef
  Mutant = "none"
INVARIANT NoKeyError
INVARIANT WritersExclusive
INVARIANT HoldsCurrent
INVARIANT NoLeak
PROPERTY AllDone
CHECK_DEADLOCK FALSE
