SPECIFICATION Spec
CONSTANTS
  S = 16
  Streams = {1, 2}
  Sizes = {1, 4}
  Lats = {0, 5}
  MaxOps = 6
  MaxTime = 40
  Mutant = "none"
INVARIANT RateRespected
INVARIANT DebtBounded
INVARIANT LockSound
CHECK_DEADLOCK FALSE
