SPECIFICATION Spec
CONSTANTS
  MaxChain = 2
INVARIANT Emit
CHECK_DEADLOCK FALSE
