---------------------------- MODULE RoundTripTrace ----------------------------
(***************************************************************************)
(* Validation of real init / snapshot / restore round trips (C01) and of   *)
(* the manifest the snapshot recorded (tiling clause of C14).              *)
(*                                                                         *)
(* One record per round trip, produced by the harness from the real run:   *)
(*   files    the reached files: id, size, and how the restored copy looks *)
(*            (present, len, content = byte-identical, mtime = recorded)   *)
(*   extra / untouched   anything else created / an unrelated target file  *)
(*   manifest per file the references (counter, lo, hi, chunk length) as   *)
(*            decoded by the independent reader                            *)
(*   order, align, cuts  the stream layout inputs, for the conformance     *)
(*            clause manifest = Attribute(Layout(order), cuts)             *)
(***************************************************************************)
EXTENDS Naturals, Integers, Sequences, FiniteSets, TLC, TLCExt, Json, IOUtils, SequencesExt, FiniteSetsExt

Traces == JsonDeserialize(IOEnv.TRACE_FILE)
VARIABLES tid, reported
vars == <<tid, reported>>
R == Traces[tid]
Rng(s) == {s[i] : i \in DOMAIN s}
On(c) == c \in Rng(R.check)

FileIds == {R.files[i].id : i \in DOMAIN R.files}
File(f) == R.files[CHOOSE i \in DOMAIN R.files : R.files[i].id = f]
Entries(f) == {i \in DOMAIN R.manifest : R.manifest[i].id = f}
SumLen(rs) == FoldSeq(LAMBDA r, acc : acc + (r[3] - r[2]), 0, rs)

(* ---- the layout functions of RoundTrip.tla on concrete numbers -------- *)
SizeOf(f) == File(f).size
Pad(n) == (R.align - (n % R.align)) % R.align
\* prefix sums are supplied by the harness (deep recursion is costly in TLC) and checked here, not trusted
StartOf(i) == R.starts[i]
EndOf(i) == StartOf(i) + SizeOf(R.order[i])
StartsOk == \A i \in DOMAIN R.order :
               R.starts[i] = IF i = 1 THEN 0 ELSE R.starts[i - 1] + SizeOf(R.order[i - 1]) + Pad(SizeOf(R.order[i - 1]))
\* chunk with counter k covers [CutLo(k), CutHi(k))
CutHi(k) == IF k = 0 THEN 0 ELSE R.cum[k]
CutLo(k) == CutHi(k - 1)
CumOk == \A k \in DOMAIN R.cuts : R.cum[k] = (IF k = 1 THEN 0 ELSE R.cum[k - 1]) + R.cuts[k]
Max2(a, b) == IF a > b THEN a ELSE b
Min2(a, b) == IF a < b THEN a ELSE b
ExpectedRefs(i) ==   \* set of <<counter, lo, hi>> the closed-interval rule of _chunk_done gives file number i of the stream
    {<<k, Max2(StartOf(i) - CutLo(k), 0), Min2(EndOf(i), CutHi(k)) - CutLo(k)>> :
        k \in {j \in 1..Len(R.cuts) : StartOf(i) <= CutHi(j) /\ ~(EndOf(i) < CutLo(j))}}
NonEmpty(S) == {r \in S : r[3] > r[2]}
ObservedRefs(f) == UNION {{<<r[1], r[2], r[3]>> : r \in Rng(R.manifest[i].refs)} : i \in Entries(f)}

Clause ==
  IF On("P:ManifestOnce") /\ \E f \in FileIds : Cardinality(Entries(f)) # 1 THEN "P:ManifestOnce"
  ELSE IF On("P:ManifestOnlyReached") /\ (R.unknown_entries > 0) THEN "P:ManifestOnlyReached"
  ELSE IF On("P:Tiling") /\ \E i \in DOMAIN R.manifest :
            \/ SumLen(R.manifest[i].refs) # SizeOf(R.manifest[i].id)
            \/ \E r \in Rng(R.manifest[i].refs) : ~(0 <= r[2] /\ r[2] <= r[3] /\ r[3] <= r[4])
            \/ ~R.manifest[i].content THEN "P:Tiling"
  ELSE IF On("P:SnapshotOk") /\ ~R.snapshot_ok THEN "P:SnapshotOk"
  ELSE IF On("P:RestoreOk") /\ ~R.restore_ok THEN "P:RestoreOk"
  ELSE IF On("P:EveryFileRestored") /\ \E f \in FileIds : ~File(f).present THEN "P:EveryFileRestored"
  ELSE IF On("P:Length") /\ \E f \in FileIds : File(f).len # File(f).size THEN "P:Length"
  ELSE IF On("P:Content") /\ \E f \in FileIds : ~File(f).content THEN "P:Content"
  ELSE IF On("P:Mtime") /\ \E f \in FileIds : ~File(f).mtime THEN "P:Mtime"
  ELSE IF On("P:NothingElse") /\ (R.extra \/ ~R.untouched) THEN "P:NothingElse"
  ELSE "ok"

\* conformance: the manifest is what the specified attribution rule yields for the observed cuts
\* (zero-length touches may come and go: compared on the non-empty ranges)
Conf ==
  IF R.cuts = <<>> THEN "ok"
  ELSE IF ~(StartsOk /\ CumOk) THEN "C:harness-prefix-sums"
  ELSE IF \E i \in DOMAIN R.order : NonEmpty(ObservedRefs(R.order[i])) # NonEmpty(ExpectedRefs(i)) THEN "C:attribution"
  ELSE "ok"

Init == tid \in 1..Len(Traces) /\ reported = FALSE
Report == ~reported /\ PrintT(<<"V", tid, 1, Clause, Conf>>) /\ reported' = TRUE /\ UNCHANGED tid
Next == Report
Spec == Init /\ [][Next]_vars
=============================================================================
