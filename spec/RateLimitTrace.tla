---------------------------- MODULE RateLimitTrace ----------------------------
(***************************************************************************)
(* Deliveries of the REAL RateLimitedIO (under a virtual clock): every     *)
(* completed read / write with the time it returned and its byte count, in *)
(* units where one byte takes one tick at the limit. The leaky-bucket      *)
(* recursion of RateLimit.tla decides the window property for ALL windows. *)
(* Transparency clauses: bytes unchanged and in order, seek / tell /       *)
(* truncate act on the underlying stream.                                  *)
(***************************************************************************)
EXTENDS Naturals, Integers, Sequences, FiniteSets, TLC, TLCExt, Json, IOUtils

Traces == JsonDeserialize(IOEnv.TRACE_FILE)
VARIABLES tid, l, excess, lastT, verdict, reported
vars == <<tid, l, excess, lastT, verdict, reported>>
Tr == Traces[tid]
Ev == Tr.events
Max2(a, b) == IF a > b THEN a ELSE b
Burst == Tr.cap + (Tr.k + 1) * Tr.dmax

NewExcess(e) == e.n + Max2(0, excess - (e.t - lastT))
Clause(e) ==
  CASE e.a = "deliver" -> IF e.t < lastT THEN "C:time-goes-backwards"
                          ELSE IF NewExcess(e) > Burst THEN "P:RateRespected" ELSE "ok"
    [] e.a = "done" -> IF ~e.intact THEN "P:BytesUnaltered"
                       ELSE IF ~e.seekok THEN "P:SeekTruncateForwarded" ELSE "ok"
    [] OTHER -> "ok"

Init == tid \in 1..Len(Traces) /\ l = 1 /\ excess = 0 /\ lastT = 0 /\ verdict = "ok" /\ reported = FALSE
Step == /\ ~reported /\ verdict = "ok" /\ l <= Len(Ev)
        /\ LET e == Ev[l]  c == Clause(e) IN
           /\ verdict' = c /\ l' = IF c = "ok" THEN l + 1 ELSE l
           /\ excess' = IF c = "ok" /\ e.a = "deliver" THEN NewExcess(e) ELSE excess
           /\ lastT' = IF c = "ok" /\ e.a = "deliver" THEN e.t ELSE lastT
        /\ UNCHANGED <<tid, reported>>
Report == /\ ~reported /\ (verdict # "ok" \/ l > Len(Ev))
          /\ PrintT(<<"V", tid, l, verdict, "ok">>) /\ reported' = TRUE /\ UNCHANGED <<tid, l, excess, lastT, verdict>>
Next == Step \/ Report
Spec == Init /\ [][Next]_vars
=============================================================================
