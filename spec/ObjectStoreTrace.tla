--------------------------- MODULE ObjectStoreTrace ---------------------------
(***************************************************************************)
(* Refinement check: the operations performed on a real backend adapter    *)
(* (local / S3-compatible / B2, through its own constructor and methods)   *)
(* with the results it returned, replayed through ObjectStore!Apply and    *)
(* compared with ObjectStore!Result.  Every result is a property clause:   *)
(* C13 *is* "the adapter refines the map".                                 *)
(***************************************************************************)
EXTENDS Naturals, Sequences, FiniteSets, TLC, TLCExt, Json, IOUtils, SequencesExt

CONSTANTS Names, Contents, MaxOps
VARIABLES store, last, nops            \* the design model's variables are not used here
INSTANCE ObjectStore

Traces == JsonDeserialize(IOEnv.TRACE_FILE)
VARIABLES tid, l, st, verdict, reported
tvars == <<tid, l, st, verdict, reported, store, last, nops>>
Tr == Traces[tid]
Ev == Tr.events
Rng(s) == {s[i] : i \in DOMAIN s}
NameOf(i) == Tr.names[i]           \* code point sequences; events refer to names by index

OpOf(e) == [k |-> e.k, n |-> IF e.k = "list" THEN e.prefix ELSE NameOf(e.n), c |-> e.c]
\* a recorded known finding waives its clause on that event so that the rest of the trace is examined
Waived(e) == "waive" \in DOMAIN e
Clause(s, e) ==
  LET op == OpOf(e)  exp == Result(s, op) IN
  IF Waived(e) THEN "ok"
  ELSE IF e.ok # exp.ok THEN (IF exp.ok THEN "P:" \o e.k \o ":failed" ELSE "P:" \o e.k \o ":missing-name-not-an-error")
  ELSE IF ~e.ok THEN "ok"
  ELSE IF e.k = "exists" /\ e.v # exp.v THEN "P:exists:wrong-answer"
  ELSE IF e.k \in {"download", "download_stream"} /\ e.v # exp.v THEN "P:" \o e.k \o ":wrong-bytes"
  ELSE IF e.k = "list" /\ {NameOf(i) : i \in Rng(e.names)} # exp.names THEN
          (IF exp.names \ {NameOf(i) : i \in Rng(e.names)} # {} THEN "P:list:name-missing" ELSE "P:list:extra-name")
  ELSE IF e.k = "list" /\ (e.unknown > 0) THEN "P:list:extra-name"
  ELSE IF e.k = "list" /\ Len(e.names) # Cardinality(Rng(e.names)) THEN "P:list:duplicate"
  ELSE "ok"

TInit == /\ tid \in 1..Len(Traces) /\ l = 1 /\ st = <<>> /\ verdict = "ok" /\ reported = FALSE
         /\ store = <<>> /\ last = 0 /\ nops = 0
Step == /\ ~reported /\ verdict = "ok" /\ l <= Len(Ev)
        /\ LET c == Clause(st, Ev[l]) IN
           /\ verdict' = c
           /\ st' = IF c = "ok" /\ (Ev[l].ok \/ ~Waived(Ev[l])) THEN Apply(st, OpOf(Ev[l])) ELSE st
           /\ l' = IF c = "ok" THEN l + 1 ELSE l
        /\ UNCHANGED <<tid, reported, store, last, nops>>
Report == /\ ~reported /\ (verdict # "ok" \/ l > Len(Ev))
          /\ PrintT(<<"V", tid, l, verdict, "ok">>) /\ reported' = TRUE /\ UNCHANGED <<tid, l, st, verdict, store, last, nops>>
TNext == Step \/ Report
TSpec == TInit /\ [][TNext]_tvars
=============================================================================
