------------------------------- MODULE Settings -------------------------------
(***************************************************************************)
(* C17 - accepted settings always yield a usable repository and working    *)
(* keys.  The settings space is a product of palettes (in range, boundary, *)
(* out of range, mistyped, unknown) per group; Valid says what the         *)
(* primitives really require.  TLC enumerates the whole product and every  *)
(* add-key chain up to MaxChain links; each point is replayed through the  *)
(* real init / add-key and judged by SettingsTrace.tla:                    *)
(*    rejected => the backend is untouched                                 *)
(*    accepted => a FRESH process unlocks with (stored config, emitted     *)
(*                key, password), backs up and restores a tree identically *)
(*    every key of a chain unlocks with its own password and no other      *)
(* Whether a point is accepted or rejected is conformance only (C:...):    *)
(* stricter validation is not an alarm, accepting an unusable one is.      *)
(***************************************************************************)
EXTENDS Naturals, Sequences, FiniteSets, TLC

Hashing == {"h-default", "h-blake2b-32", "h-blake2b-64", "h-blake2b-1", "h-blake2b-65", "h-blake2b-0", "h-blake2b-neg", "h-sha2-256", "h-sha2-255", "h-sha3-512",
            "h-sha3-224", "h-unknown-name", "h-blake2b-str", "h-unknown-param"}
Chunking == {"c-default", "c-64-256", "c-128-128", "c-min-gt-max", "c-min-0", "c-min-neg", "c-max-str", "c-5-6", "c-unknown-name", "c-float", "c-4-4"}
Encryption == {"e-none", "e-default", "e-chacha", "e-aes-128", "e-aes-192", "e-aes-100", "e-kdf-n3", "e-kdf-r-str", "e-nonce-64", "e-nonce-0", "e-unknown-group",
               "e-kdf-unknown-param", "e-cipher-unknown", "e-kdf-n-2", "e-kdf-blake2b", "e-kdf-blake2b-chacha", "e-kdf-blake2b-aes-128", "e-nonce-128-aes-192"}
Extra == {"x-none", "x-unknown-group", "x-hashing-not-a-mapping"}

ValidH == {"h-default", "h-blake2b-32", "h-blake2b-64", "h-blake2b-1", "h-sha2-256", "h-sha3-512", "h-sha3-224"}
ValidC == {"c-default", "c-64-256", "c-128-128", "c-4-4", "c-5-6"}       \* c-5-6: no aligned length in [min, max]; chunks come out longer than max but nothing is lost
\* the user KDF may be blake2b (documented): its salt has a fixed size, whatever the cipher's key size
ValidE == {"e-none", "e-default", "e-chacha", "e-aes-128", "e-aes-192", "e-nonce-64", "e-kdf-n-2", "e-kdf-blake2b", "e-kdf-blake2b-chacha", "e-kdf-blake2b-aes-128",
           "e-nonce-128-aes-192"}
ValidX == {"x-none"}
Valid(s) == s.h \in ValidH /\ s.c \in ValidC /\ s.e \in ValidE /\ s.x \in ValidX

\* add-key chains: each link is derived from the previous key (or from the owner)
LinkKinds == {"independent", "shared", "clone"}
KdfPalette == {"k-default", "k-n8", "k-r4", "k-blake2b"}
CONSTANTS MaxChain
Chains == UNION {[1..n -> LinkKinds \X KdfPalette] : n \in 1..MaxChain}

VARIABLES point
Init == point \in [h : Hashing, c : Chunking, e : Encryption, x : Extra] \cup [chain : Chains]
Next == UNCHANGED point
Spec == Init /\ [][Next]_point
Emit == IF "chain" \in DOMAIN point THEN PrintT(<<"K", point.chain>>)
        ELSE PrintT(<<"S", point.h, point.c, point.e, point.x, Valid(point)>>)
=============================================================================
