----------------------------- MODULE LocalFSTrace -----------------------------
(***************************************************************************)
(* Validation of the system calls (strace) the real local backend made     *)
(* inside the repository directory. State: per path the number of bytes    *)
(* written and the number of open writers. Clauses (C03):                  *)
(*   P:NoWriteToVisible   no write() ever goes to a path a listing shows   *)
(*   P:NoTruncVisible     no visible path is opened for writing            *)
(*   P:RenameClosed       a temporary is renamed only after it was closed  *)
(*   P:RenameFromTmp      visible paths only come into being by rename     *)
(***************************************************************************)
EXTENDS Naturals, Sequences, FiniteSets, TLC, TLCExt, Json, IOUtils

Traces == JsonDeserialize(IOEnv.TRACE_FILE)
VARIABLES tid, l, st, verdict, reported
vars == <<tid, l, st, verdict, reported>>
Tr == Traces[tid]
Ev == Tr.events
Rng(s) == {s[i] : i \in DOMAIN s}

\* st.len : path id -> bytes ; st.open : path id -> open writers ; st.live : set of path ids that exist
State0 == [live |-> Rng(Tr.init), open |-> [p \in 1..Tr.npaths |-> 0], len |-> [p \in 1..Tr.npaths |-> 0]]
IsTmp(p) == Tr.tmp[p]

Apply(s, e) ==
  CASE e.a = "creat"  -> [s EXCEPT !.live = @ \cup {e.p}, !.open[e.p] = @ + 1, !.len[e.p] = IF e.trunc THEN 0 ELSE @]
    [] e.a = "write"  -> [s EXCEPT !.len[e.p] = @ + e.n]
    [] e.a = "close"  -> [s EXCEPT !.open[e.p] = IF @ > 0 THEN @ - 1 ELSE 0]
    [] e.a = "rename" -> [s EXCEPT !.live = (@ \ {e.p}) \cup {e.q}, !.len[e.q] = s.len[e.p], !.open[e.q] = s.open[e.p], !.open[e.p] = 0]
    [] e.a = "unlink" -> [s EXCEPT !.live = @ \ {e.p}]
    [] OTHER -> s

Clause(s, e) ==
  CASE e.a = "creat"  -> IF ~IsTmp(e.p) THEN (IF e.p \in s.live THEN "P:NoTruncVisible" ELSE "P:RenameFromTmp") ELSE "ok"
    [] e.a = "write"  -> IF ~IsTmp(e.p) THEN "P:NoWriteToVisible" ELSE "ok"
    [] e.a = "rename" -> IF s.open[e.p] > 0 THEN "P:RenameClosed"
                         ELSE IF ~IsTmp(e.p) THEN "P:RenameFromTmp" ELSE "ok"
    [] OTHER -> "ok"

Init == tid \in 1..Len(Traces) /\ l = 1 /\ st = State0 /\ verdict = "ok" /\ reported = FALSE
Step == /\ ~reported /\ verdict = "ok" /\ l <= Len(Ev)
        /\ LET e == Ev[l]  c == Clause(st, e) IN
           /\ verdict' = c
           /\ st' = IF c = "ok" THEN Apply(st, e) ELSE st
           /\ l' = IF c = "ok" THEN l + 1 ELSE l
        /\ UNCHANGED <<tid, reported>>
Report == /\ ~reported /\ (verdict # "ok" \/ l > Len(Ev))
          /\ PrintT(<<"V", tid, l, verdict, "ok">>)
          /\ reported' = TRUE /\ UNCHANGED <<tid, l, st, verdict>>
Next == Step \/ Report
Spec == Init /\ [][Next]_vars
=============================================================================
