----------------------------- MODULE ChunkerTrace -----------------------------
(***************************************************************************)
(* Validation of calls of the REAL chunker (python adapter, shipped        *)
(* extension, library rebuilt from src/adapters.cpp).  A trace is a group  *)
(* of calls on one stream (C10) or on streams related by a shared suffix   *)
(* or a local edit (C11), with the same key and bounds. The observable     *)
(* clauses of Chunker.tla are evaluated on every call, and the memo        *)
(* carried in the state turns "fully determined by the bytes and the       *)
(* parameters" into a check: a call that contradicts an earlier call with  *)
(* the same bytes + segmentation (whatever lay behind the buffer in memory,*)
(* whatever the chunker object did before) is rejected.                    *)
(***************************************************************************)
EXTENDS Naturals, Integers, Sequences, FiniteSets, TLC, TLCExt, Json, IOUtils, Folds

Traces == JsonDeserialize(IOEnv.TRACE_FILE)
VARIABLES tid, l, memo, verdict, reported
vars == <<tid, l, memo, verdict, reported>>
Tr == Traces[tid]
Ev == Tr.events
Rng(s) == {s[i] : i \in DOMAIN s}
On(c) == c \in Rng(Tr.check)
MaxL == Tr.max
MinL == Tr.min

\* e.cuts: chunk lengths; e.starts: their start offsets (prefix sums, supplied and checked)
StartsOk(e) == \A i \in DOMAIN e.cuts : e.starts[i] = IF i = 1 THEN 0 ELSE e.starts[i - 1] + e.cuts[i - 1]
SumCuts(e) == IF e.cuts = <<>> THEN 0 ELSE e.starts[Len(e.cuts)] + e.cuts[Len(e.cuts)]
InTail(e, start) == start >= e.total - 2 * MaxL
\* <<offset relative to the shared part, length>> of the chunks that lie outside the tail zone and inside the shared part
Outside(e) == {<<e.starts[i] - e.shift, e.cuts[i]>> : i \in {j \in DOMAIN e.cuts : ~InTail(e, e.starts[j]) /\ e.starts[j] >= e.from}}
Boundaries(e) == {e.starts[i] - e.shift : i \in {j \in DOMAIN e.cuts : e.starts[j] >= e.from}}
\* from the first boundary both calls have in common on
CommonFrom(a, b) == LET c == Boundaries(a) \cap b.bset IN
                    IF c = {} THEN -1 ELSE CHOOSE x \in c : \A y \in c : x <= y
After(S, x) == {p \in S : p[1] >= x}

Clause(e) ==
  IF e.rel = "realign" THEN   \* C11 padding clause: the same file content at another aligned stream position keeps most of its chunks
       (IF On("P:PaddingAlignsFiles") /\ 2 * e.reused < e.total THEN "P:PaddingAlignsFiles" ELSE "ok")
  ELSE IF e.rel = "starts" THEN   \* C11 padding clause, stated directly: a file of a real snapshot starts on the alignment grid of the chunker input
       (IF On("P:PaddingAlignsFiles") /\ (e.offset < 0 \/ e.offset % 4 # 0) THEN "P:PaddingAlignsFiles" ELSE "ok")
  ELSE IF ~StartsOk(e) THEN "C:harness-prefix-sums"
  ELSE IF On("P:Lossless") /\ (~e.lossless \/ SumCuts(e) # e.total) THEN "P:Lossless"
  ELSE IF On("P:NonEmpty") /\ (\E i \in DOMAIN e.cuts : e.cuts[i] <= 0) THEN "P:NonEmpty"
  ELSE IF On("P:Bounds") /\ (\E i \in DOMAIN e.cuts : ~InTail(e, e.starts[i]) /\ ~(MinL <= e.cuts[i] /\ e.cuts[i] <= MaxL /\ e.cuts[i] % 4 = 0)) THEN "P:Bounds"
  ELSE IF On("P:Deterministic") /\ (e.key \in DOMAIN memo.exact /\ memo.exact[e.key] # e.cuts) THEN "P:Deterministic"
  ELSE IF On("P:SegmentationIndependent") /\ (e.grp \in DOMAIN memo.outside /\ memo.outside[e.grp].set # Outside(e)) THEN "P:SegmentationIndependent"
  ELSE IF On("P:SuffixLocal") /\ e.grp \in DOMAIN memo.outside /\ e.rel = "suffix" /\
          (LET m == memo.outside[e.grp]  c == CommonFrom(e, m) IN
           c >= 0 /\ After(Outside(e), c) # After(m.set, c)) THEN "P:SuffixLocal"
  ELSE IF On("P:Resync") /\ e.grp \in DOMAIN memo.outside /\ e.rel = "edit" /\
          (LET m == memo.outside[e.grp]
               c == {x \in Boundaries(e) \cap m.bset : x >= e.editend} IN
           c = {} \/ (CHOOSE x \in c : \A y \in c : x <= y) - e.editend > Tr.resync) THEN "P:Resync"
  ELSE IF On("P:KeysDiffer") /\ e.rel = "otherkey" /\ e.grp \in DOMAIN memo.outside /\ memo.outside[e.grp].cuts = e.cuts THEN "P:KeysDiffer"
  ELSE "ok"

Remember(e) == [exact   |-> IF e.key \in DOMAIN memo.exact THEN memo.exact ELSE (e.key :> e.cuts) @@ memo.exact,
                outside |-> IF e.grp \in DOMAIN memo.outside THEN memo.outside
                            ELSE (e.grp :> [set |-> Outside(e), bset |-> Boundaries(e), cuts |-> e.cuts]) @@ memo.outside]

Init == tid \in 1..Len(Traces) /\ l = 1 /\ memo = [exact |-> <<>>, outside |-> <<>>] /\ verdict = "ok" /\ reported = FALSE
Step == /\ ~reported /\ verdict = "ok" /\ l <= Len(Ev)
        /\ LET c == Clause(Ev[l]) IN
           /\ verdict' = c
           /\ memo' = IF c = "ok" THEN Remember(Ev[l]) ELSE memo
           /\ l' = IF c = "ok" THEN l + 1 ELSE l
        /\ UNCHANGED <<tid, reported>>
Report == /\ ~reported /\ (verdict # "ok" \/ l > Len(Ev))
          /\ PrintT(<<"V", tid, l, verdict, "ok">>) /\ reported' = TRUE /\ UNCHANGED <<tid, l, memo, verdict>>
Next == Step \/ Report
Spec == Init /\ [][Next]_vars
=============================================================================
