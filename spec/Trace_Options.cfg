SPECIFICATION TSpec
CONSTANTS
  Options = {}
  KindOf = {}
  Commands = {}
CHECK_DEADLOCK FALSE
