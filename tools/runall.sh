#!/bin/sh
# usage: tools/runall.sh [tier] [seed]   runs every claimed check, prints one summary line per check
TIER=${1:-quick}; SEED=${2:-0}
cd "$(dirname "$0")/.."
for p in $(python3 -c "import json; print(' '.join(c['property_id'] for c in json.load(open('MANIFEST.json'))['checks']))"); do
  s=$(date +%s)
  VERIF_SEED=$SEED timeout 7200 bin/check $p --tier $TIER > /tmp/runall_$p.log 2>&1; rc=$?
  e=$(date +%s)
  echo "$p rc=$rc $((e-s))s $(grep -c '^VIOLATION' /tmp/runall_$p.log) violations; $(grep -E '^(KNOWN-FINDING|DRIFT)' /tmp/runall_$p.log | cut -c1-80 | tr '\n' '|')"
done
