#!/bin/sh
# usage: tools/seedcheck.sh <seed name> <check id>...   apply /verif/seeded/<name>/patch.diff to /repo, run the quick checks, revert.
NAME=$1; shift
cd /repo || exit 2
test -z "$(git status --porcelain --untracked-files=no)" || { echo "/repo is dirty"; exit 2; }
git apply /verif/seeded/$NAME/patch.diff || { echo "patch does not apply"; exit 2; }
for c in "$@"; do
  timeout ${SEED_TIMEOUT:-600} /verif/bin/check $c --tier ${SEED_TIER:-quick} > /tmp/seedcheck_$c.log 2>&1; rc=$?
  cl=$(grep -a "clause=" /tmp/seedcheck_$c.log | sed 's/.*clause=\([^ ]*\).*/\1/' | sort -u | tr '\n' ' ')
  if [ $rc = 1 ]; then echo "$NAME $c: CAUGHT [$cl]"; elif [ $rc = 0 ]; then echo "$NAME $c: missed"; else echo "$NAME $c: MACHINERY rc=$rc"; tail -5 /tmp/seedcheck_$c.log; fi
done
git -C /repo checkout -- .
