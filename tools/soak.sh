#!/bin/sh
# usage: tools/soak.sh <first seed> <last seed> [tier]   every claimed check under several seeds (false-alarm hunt on the unchanged tree)
cd "$(dirname "$0")/.."
[ -n "$VP_RUN_REPO" ] && export RV_REPO="$VP_RUN_REPO"
bin/setup
for s in $(seq $1 $2); do echo "=== seed $s"; tools/runall.sh ${3:-quick} $s; done
