#!/bin/sh
# usage: tools/thorough.sh [seed] [ids...]  thorough tier of the given (default: all) checks, summary per check
cd "$(dirname "$0")/.."
[ -n "$VP_RUN_REPO" ] && export RV_REPO="$VP_RUN_REPO"
SEED=${1:-0}; shift
bin/setup
IDS="$@"; [ -z "$IDS" ] && IDS=$(python3 -c "import json; print(' '.join(c['property_id'] for c in json.load(open('MANIFEST.json'))['checks']))")
for p in $IDS; do
  s=$(date +%s)
  VERIF_SEED=$SEED timeout 10800 bin/check $p --tier thorough > thorough_$p.log 2>&1; rc=$?
  e=$(date +%s)
  echo "$p rc=$rc $((e-s))s $(grep -c '^VIOLATION' thorough_$p.log) violations; $(grep -E '^(KNOWN-FINDING|DRIFT|MACHINERY)' thorough_$p.log | cut -c1-100 | tr '\n' '|')"
  grep -a -A1 '^VIOLATION' thorough_$p.log | cut -c1-600 | head -6
done
