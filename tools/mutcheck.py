#!/usr/bin/env python3
"""usage: tools/mutcheck.py MID [Cxx ...]   apply mutation MID to /repo, run the quick checks, revert.
Prints caught/missed per property. /repo is restored with `git checkout -- .` in every case."""
import subprocess
import sys
import os
sys.path.insert(0, os.path.dirname(__file__))
from mutants import M

def main():
    mid = sys.argv[1]
    f, old, new, expect = M[mid]
    props = sys.argv[2:] or expect
    path = os.path.join('/repo', f)
    src = open(path).read()
    olds = old if isinstance(old, list) else [old]
    news = new if isinstance(new, list) else [new]
    for o in olds:
        if src.count(o) != 1:
            print('%s: pattern occurs %d times in %s' % (mid, src.count(o), f)); sys.exit(2)
    assert subprocess.run(['git', '-C', '/repo', 'status', '--porcelain', '--untracked-files=no'], capture_output=True, text=True).stdout.strip() == '', '/repo is dirty'
    try:
        for o, n_ in zip(olds, news):
            src = src.replace(o, n_)
        open(path, 'w').write(src)
        for p in props:
            r = subprocess.run(['/verif/bin/check', p, '--tier', os.environ.get('MUT_TIER', 'quick')], capture_output=True, text=True, timeout=3000)
            viol = [l for l in r.stdout.splitlines() if l.startswith('VIOLATION')]
            cl = sorted({l.split('clause=')[1].split()[0] for l in r.stdout.splitlines() if l.strip().startswith('clause=')})
            print('%s %s: rc=%d %s %s' % (mid, p, r.returncode, 'CAUGHT' if r.returncode == 1 and viol else ('MACHINERY' if r.returncode == 2 else 'missed'), cl[:6]))
            if r.returncode == 2:
                print(r.stderr[-1500:])
    finally:
        subprocess.run(['git', '-C', '/repo', 'checkout', '--', '.'], check=True)

main()
