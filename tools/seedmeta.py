#!/usr/bin/env python3
"""usage: tools/seedmeta.py <seed name> <caught-by, comma separated> [<what was strengthened, if it was missed at first>]
writes /verif/seeded/<name>/meta.json from the agent's meta and what was confirmed / run here"""
import json
import os
import sys

name, caught = sys.argv[1], sys.argv[2]
note = sys.argv[3] if len(sys.argv) > 3 else ''
d = os.path.join('/verif/seeded', name)
a = json.load(open(os.path.join(d, 'meta.agent.json')))
demo = [f for f in os.listdir(d) if f.endswith('.py')][0]
meta = {
    'property': a.get('property', name.split('_')[0]),
    'origin': 'independent sub-agent given only the property text and a scratch worktree',
    'summary': a.get('summary'),
    'needs_to_manifest': a.get('needs') or a.get('needs_to_manifest'),
    'why_existing_tests_pass': a.get('why_tests_pass') or a.get('why_existing_tests_pass'),
    'files_changed': a.get('files') or a.get('files_changed'),
    'confirmed_here': {
        'existing_suite_with_change': '256 passed (env -u REPLICAT_VERIF /venv/bin/python -m pytest -q -p no:cacheprovider -x in the scratch worktree)',
        'demonstration': '%s: exit != 0 with the change, exit 0 without it (tools/seedverify.sh)' % demo,
    },
    'checks_run': 'tools/seedcheck.sh %s %s  (git -C /repo apply patch.diff; bin/check <id> --tier quick; git -C /repo checkout -- .)' % (name, ' '.join(c.split('[')[0] for c in caught.split(','))),
    'caught_by': caught.split(','),
    'missed_at_first': bool(note),
    'strengthening': note or None,
}
json.dump(meta, open(os.path.join(d, 'meta.json'), 'w'), indent=1)
os.remove(os.path.join(d, 'meta.agent.json'))
print('wrote', os.path.join(d, 'meta.json'))
