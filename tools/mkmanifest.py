#!/usr/bin/env python3
"""Regenerates /verif/MANIFEST.json from the table below: a property is claimed iff rv/drivers/<id>.py exists."""
import json
import os

ROOT = os.path.dirname(os.path.dirname(os.path.abspath(__file__)))
TB = 'trusted: TLC, the independent codec rv/refcodec.py (projection), the instrumented in-memory backend; '
P = {
 'C01': ('model_checking', 'RoundTrip.tla proves layout/attribution/plan/apply = identity for every tiling, argument list and pre-existing target in a small scope; real init/snapshot/restore runs over a configuration grid are recorded and validated by RoundTripTrace.tla', TB + 'small-scope bounds; files do not change during the snapshot', '6 C01', 'TLC design theorem + TLC trace validation of real round trips'),
 'C02': ('model_checking', 'Repo.tla checked exhaustively on every key graph (Safety invariant, spec mutants must fail); TLC behaviours replayed through the real commands with state comparison; random multi-user histories on real repositories validated event by event by RepoTrace.tla (Safety after every backend mutation, faithful commit, final restores)', TB + 'destructive commands are not overlapped (README)', '6 C02', 'TLC model checking + behaviour replay + TLC trace validation'),
 'C03': ('fault_enumeration', 'every prefix of the backend mutation log of real snapshot/delete/clean executions (all completion orders the run produced, plus scripted ones) is rebuilt as a crash state and given to the real follow-up commands; histories validated by RepoTrace.tla; local backend syscall traces validated by LocalFS.tla at every syscall prefix; single permanent failures injected at every backend call', TB + 'crash = loss of the process (no power-loss reordering); strace for the local backend', '6 C03', 'crash-point enumeration checked by TLC trace validation (RepoTrace, LocalFS) on top of Repo.tla with Crash/Fail'),
 'C04': ('fault_enumeration', 'Tamper.tla shows which check stops which tamper kind; every tamper family (bit flips, truncation, extension, swaps, replays, deletion) applied to the objects of real repositories, the real restore outcome validated by TamperTrace clauses (error or original bytes)', TB + 'AEAD and hash strength', '6 C04', 'TLC model + enumerated tampering of real objects validated by TLC'),
 'C05': ('other', 'AtRest.tla: symbolic term model of everything written, observer knowledge closure; every object name and byte written by real commands is decoded to a term by the independent codec and validated by AtRestTrace.tla, plus a canary scan of raw bytes', TB + 'AEAD hides its payload', '6 C05', 'symbolic TLA+ model checked by TLC + TLC validation of term traces decoded from real bytes'),
 'C06': ('model_checking', 'Repo.tla Confined / refusal properties per key graph with spec mutants; TLC behaviours incl. refused deletes replayed; histories in which every user lists, restores, deletes foreign snapshots and cleans, plus the unlock matrix (with impostor passwords) and a flow in which keys and snapshots are made through the command line, validated by RepoTrace.tla', TB + 'key relations as decoded by the independent codec', '6 C06', 'TLC model checking + behaviour replay + TLC trace validation'),
 'C07': ('model_checking', 'Repo.tla DedupExact / RepeatNoUpload; crash-free histories and repeat-snapshot scenarios (same, shared, independent users, concurrency 1..8, fresh process per command, content-defined chunking) validated by RepoTrace.tla (UploadOnlyIfAbsent, DedupExact, NoAlias)', TB, '6 C07', 'TLC model checking + TLC trace validation'),
 'C08': ('model_checking', 'Repo.tla CleanExact / DeleteComplete / Confined as action properties over histories with Crash/Fail; replay with exact chunk-set comparison; histories with interrupted commands and foreign objects validated by RepoTrace.tla', TB + 'chunk and snapshot areas contain only replicat objects', '6 C08', 'TLC model checking + behaviour replay + TLC trace validation'),
 'C09': ('model_checking', 'SnapshotPipe.tla / RestorePipe.tla / FileLocks.tla explore every interleaving in small scope (safety, slot bound, termination under fairness, spec mutants); schedules replayed on the real pipelines through sync hooks and a controlled backend; free-running runs under seeded perturbation, line-level fuzzing and delay injection at call sites validated by the pipeline trace specs', 'trusted: hook placement, schedule controller; schedules controlled at hook/backend-call granularity', '6 C09', 'TLC model checking of thread interleavings + schedule replay + TLC trace validation'),
 'C10': ('model_checking', 'Chunker.tla: wrapper state machine around an abstract cut function, all streams/segmentations/parameters in small scope; real chunker (python adapter, shipped extension, library rebuilt from src/adapters.cpp) traces validated by ChunkerTrace.tla incl. functional-consistency memo across environments', 'trusted: TLC, ctypes shim; CLMUL arithmetic outside the spec', '6 C10', 'TLC model checking + TLC trace validation of real chunker runs'),
 'C11': ('exploration', 'deterministic locality proved on Chunker.tla and enforced on traces by the suffix memo; re-synchronisation distance and key separation measured on the real chunker against a bound with failure probability < 1e-15', 'statistical clause is measured, not proved', '6 C11', 'TLC (locality) + measured statistical bound on real traces'),
 'C12': ('fault_enumeration', 'Transfer.tla behaviours are fault scripts (position x kind x count) executed against the real local/S3/B2 adapters with faulty streams and mock transports; outcomes validated by TransferTrace clauses (exact bytes, bounded attempts)', 'trusted: fake S3/B2 services, virtual clock', '6 C12', 'TLC-generated fault scripts + TLC validation of outcomes'),
 'C13': ('model_checking', 'ObjectStore.tla is the name->bytes map; operation histories (TLC-generated and random) run on the local, S3-compatible and B2 adapters are validated by ObjectStoreTrace.tla: every result must be the map\'s', 'trusted: fake S3/B2 services (specified), TLC', '6 C13', 'refinement checking by TLC trace validation'),
 'C14': ('translation_validation', 'two independent codecs: every repository written by replicat is decoded by rv/refcodec.py and its term/tiling trace validated by FormatTrace.tla; repositories written by the independent writer (both metadata variants) are restored by replicat', 'trusted: rv/refcodec.py written from the documented scheme', '6 C14', 'independent codec in both directions + TLC validation of format/tiling traces'),
 'C15': ('model_checking', 'Repo.tla/RepoTrace.tla define RestoreResult and the listing rows from the abstract state; histories where paths appear, change and disappear with all filter combinations; stdout and restored trees validated by TLC', TB + 'regex match sets computed with Python re', '6 C15', 'TLC trace validation against the selection functions of the spec'),
 'C16': ('other', 'SigV4Trace.tla: structural clauses on every captured request (canonical path/query encoding, signed headers, declared hash/length = body) evaluated by TLC; signature recomputed from wire bytes by an independent verifier', 'trusted: independent SigV4 implementation, httpx mock transport', '6 C16', 'TLC validation of request traces + independent signature verifier'),
 'C17': ('model_checking', 'Settings.tla enumerates the settings lattice and add-key chains; each point replayed on the real init/add-key; outcomes validated by SettingsTrace clauses (rejected => backend untouched, accepted => fresh process round trip, own-password-only unlock)', TB, '6 C17', 'TLC enumeration replayed on the code + TLC trace validation'),
 'C18': ('model_checking', 'Repo.tla cache model (CacheTransparent, TrustCache mutant); every history re-executed under cache variants (none, empty, warm, shared, stale, every truncation of an entry); outputs validated by RepoTrace.tla which never mentions the cache', TB, '6 C18', 'TLC model + differential TLC trace validation across cache states'),
 'C19': ('model_checking', 'Options.tla: Effective(o) = first defined source in cli>env>profile>default>builtin with uniform coercion; the finite space option x source subset x command is enumerated by TLC and replayed through replicat.__main__.main(); observations validated by OptionsTrace.tla', 'trusted: recorder in place of _cmd_handler', '6 C19', 'exhaustive TLC enumeration replayed on the real CLI + TLC trace validation'),
 'C20': ('model_checking', 'RateLimit.tla: leaky bucket with lock/sleep steps in integer time, window invariant for all interleavings in small scope, mutants; real RateLimitedIO under a virtual clock, (time, bytes) logs validated by RateLimitTrace.tla for every window', 'trusted: virtual clock; sleeps exact', '6 C20', 'TLC model checking + TLC trace validation under virtual time'),
}


def main():
    checks, na = [], []
    for pid in sorted(P):
        level, text, note, ref, tech = P[pid]
        if os.path.exists(os.path.join(ROOT, 'rv', 'drivers', pid.lower() + '.py')):
            checks.append({
                'property_id': pid,
                'quick_cmd': 'bin/check %s --tier quick' % pid,
                'thorough_cmd': 'bin/check %s --tier thorough' % pid,
                'evidence_file': '/verif/evidence/%s.json' % pid,
                'replay_cmd_template': 'bin/check %s --replay {path}' % pid,
                'engine': 'tlc',
                'level_claimed': {'category': level, 'text': text, 'design_ref': 'DESIGN.md section ' + ref},
                'level_note': note,
                'technique': tech,
            })
        else:
            na.append({'property_id': pid, 'reason': 'check not built yet (planned: ' + tech + '); not claimed until its driver is committed'})
    m = {
        'version': 1,
        'setup_cmd': 'bin/setup',
        'hooks': {
            'guard': 'REPLICAT_VERIF',
            'enable': 'REPLICAT_VERIF=1 in the environment of the driver process (set by bin/check); hooks live in replicat/_verif.py and are no-ops unless a controller is installed',
            'baseline_off_cmd': 'cd /repo && env -u REPLICAT_VERIF /venv/bin/python -m pytest -ra -q -p no:cacheprovider --timeout=900 --continue-on-collection-errors',
            'source_commits': json.load(open(os.path.join(ROOT, 'tools', 'hook_commits.json'))) if os.path.exists(os.path.join(ROOT, 'tools', 'hook_commits.json')) else [],
            'add_only': True,
        },
        'engines': [{'name': 'tlc', 'path': '/opt/veriftools/tla/tla2tools.jar', 'serves_properties': [c['property_id'] for c in checks],
                     'kind_free_text': 'TLC 1.8 model checker: design models spec/*.tla, simulation for behaviour replay, batch trace validation spec/*Trace.tla'}],
        'checks': checks,
        'not_applicable': na,
        'notes': 'Model-based verification with explicit TLA+ specifications (spec/). See DESIGN.md. exit 0 held / 1 VIOLATION / 2 machinery failure.',
    }
    with open(os.path.join(ROOT, 'MANIFEST.json'), 'w') as f:
        json.dump(m, f, indent=1)
    print('claimed', [c['property_id'] for c in checks])


main()
