#!/bin/sh
# usage: tools/seedverify.sh <worktree> <seed name>   confirm a seeded change in its scratch worktree and file it under /verif/seeded/<name>
# (tests pass with the change; the demonstration fails with it and passes without it)
W=$1; NAME=$2
set -e
cd $W
test -f SEED/patch.diff
DEMO=$(ls SEED/*.py | head -1)
echo "== tests with the change"
env -u REPLICAT_VERIF /venv/bin/python -m pytest -q -p no:cacheprovider -x 2>&1 | tail -1
echo "== demo with the change (must fail)"
set +e
timeout 300 /venv/bin/python $DEMO > /tmp/seed_demo_with.txt 2>&1; RC1=$?
git diff -- replicat src > /tmp/seed_p.diff
git checkout -q -- replicat src
echo "== demo without the change (must pass)"
timeout 300 /venv/bin/python $DEMO > /tmp/seed_demo_without.txt 2>&1; RC0=$?
git apply /tmp/seed_p.diff
set -e
echo "demo rc with=$RC1 without=$RC0"
mkdir -p /verif/seeded/$NAME
cp SEED/patch.diff /verif/seeded/$NAME/patch.diff
cp $DEMO /verif/seeded/$NAME/
cp SEED/meta.json /verif/seeded/$NAME/meta.agent.json
[ "$RC1" != "0" ] && [ "$RC0" = "0" ] && echo CONFIRMED || echo NOT-CONFIRMED
